// TLC module override for Q.tla: exact rationals on canonical strings "n/d" with BigInteger.
// Loaded by TLC because the class is named like the module and lives on the classpath.
import java.math.BigDecimal;
import java.math.BigInteger;
import java.math.MathContext;
import java.math.RoundingMode;
import java.util.HashMap;

import tlc2.value.impl.BoolValue;
import tlc2.value.impl.IntValue;
import tlc2.value.impl.StringValue;
import tlc2.value.impl.TupleValue;
import tlc2.value.impl.Value;

public class Q {
    private static final class R {
        final BigInteger n, d;
        R(BigInteger n, BigInteger d) {
            if (d.signum() == 0) throw new ArithmeticException("Q: zero denominator");
            if (d.signum() < 0) { n = n.negate(); d = d.negate(); }
            BigInteger g = n.gcd(d);
            if (g.signum() != 0 && !g.equals(BigInteger.ONE)) { n = n.divide(g); d = d.divide(g); }
            if (n.signum() == 0) d = BigInteger.ONE;
            this.n = n; this.d = d;
        }
    }

    private static R r(Value v) {
        if (v instanceof StringValue) {
            String s = ((StringValue) v).val.toString();
            int i = s.indexOf('/');
            return new R(new BigInteger(s.substring(0, i)), new BigInteger(s.substring(i + 1)));
        }
        if (v instanceof IntValue) {
            return new R(BigInteger.valueOf(((IntValue) v).val), BigInteger.ONE);
        }
        TupleValue t = (TupleValue) v.toTuple();
        if (t != null && t.size() == 2) {
            return new R(BigInteger.valueOf(((IntValue) t.elems[0]).val),
                         BigInteger.valueOf(((IntValue) t.elems[1]).val));
        }
        throw new IllegalArgumentException("Q: not a rational: " + v);
    }

    private static Value v(R x) { return new StringValue(x.n.toString() + "/" + x.d.toString()); }
    private static Value v(BigInteger n, BigInteger d) { return v(new R(n, d)); }
    private static int i(Value x) { return ((IntValue) x).val; }

    public static Value QMk(Value n, Value d) {
        return v(BigInteger.valueOf(i(n)), BigInteger.valueOf(i(d)));
    }
    public static Value QI(Value n) { return v(BigInteger.valueOf(i(n)), BigInteger.ONE); }
    public static Value QZero() { return v(BigInteger.ZERO, BigInteger.ONE); }
    public static Value QOne() { return v(BigInteger.ONE, BigInteger.ONE); }

    public static Value QAdd(Value a, Value b) {
        R x = r(a), y = r(b);
        return v(x.n.multiply(y.d).add(y.n.multiply(x.d)), x.d.multiply(y.d));
    }
    public static Value QSub(Value a, Value b) {
        R x = r(a), y = r(b);
        return v(x.n.multiply(y.d).subtract(y.n.multiply(x.d)), x.d.multiply(y.d));
    }
    public static Value QMul(Value a, Value b) {
        R x = r(a), y = r(b);
        return v(x.n.multiply(y.n), x.d.multiply(y.d));
    }
    public static Value QDiv(Value a, Value b) {
        R x = r(a), y = r(b);
        return v(x.n.multiply(y.d), x.d.multiply(y.n));
    }
    public static Value QNeg(Value a) { R x = r(a); return v(x.n.negate(), x.d); }
    public static Value QLt(Value a, Value b) {
        R x = r(a), y = r(b);
        return x.n.multiply(y.d).compareTo(y.n.multiply(x.d)) < 0 ? BoolValue.ValTrue : BoolValue.ValFalse;
    }
    public static Value QLe(Value a, Value b) {
        R x = r(a), y = r(b);
        return x.n.multiply(y.d).compareTo(y.n.multiply(x.d)) <= 0 ? BoolValue.ValTrue : BoolValue.ValFalse;
    }
    public static Value QIsZero(Value a) { return r(a).n.signum() == 0 ? BoolValue.ValTrue : BoolValue.ValFalse; }
    public static Value QSign(Value a) { return IntValue.gen(r(a).n.signum()); }

    public static Value QSumSeq(Value s) {
        TupleValue t = (TupleValue) s.toTuple();
        BigInteger n = BigInteger.ZERO, d = BigInteger.ONE;
        for (Value e : t.elems) {
            R y = r(e);
            n = n.multiply(y.d).add(y.n.multiply(d));
            d = d.multiply(y.d);
            BigInteger g = n.gcd(d);
            if (g.signum() != 0) { n = n.divide(g); d = d.divide(g); }
        }
        return v(n, d);
    }
    public static Value QProdSeq(Value s) {
        TupleValue t = (TupleValue) s.toTuple();
        BigInteger n = BigInteger.ONE, d = BigInteger.ONE;
        for (Value e : t.elems) { R y = r(e); n = n.multiply(y.n); d = d.multiply(y.d); }
        return v(n, d);
    }

    private static final HashMap<Long, BigInteger> BINOM = new HashMap<>();
    private static synchronized BigInteger binom(int n, int k) {
        if (k < 0 || k > n) return BigInteger.ZERO;
        if (k > n - k) k = n - k;
        long key = ((long) n << 32) | k;
        BigInteger c = BINOM.get(key);
        if (c != null) return c;
        c = BigInteger.ONE;
        for (int j = 1; j <= k; j++) {
            c = c.multiply(BigInteger.valueOf(n - k + j)).divide(BigInteger.valueOf(j));
        }
        BINOM.put(key, c);
        return c;
    }
    public static Value QBinom(Value n, Value k) { return v(binom(i(n), i(k)), BigInteger.ONE); }

    public static Value QHyp(Value nn, Value kk, Value mm, Value jj) {
        int n = i(nn), k = i(kk), m = i(mm), j = i(jj);
        if (j > m || j > k || m - j > n - k || j < 0) return QZero();
        return v(binom(k, j).multiply(binom(n - k, m - j)), binom(n, m));
    }

    public static Value QHarm(Value mm, Value pp) {
        int m = i(mm), p = i(pp);
        BigInteger n = BigInteger.ZERO, d = BigInteger.ONE;
        for (int j = 1; j <= m; j++) {
            BigInteger dj = BigInteger.valueOf(j).pow(p);
            n = n.multiply(dj).add(d);
            d = d.multiply(dj);
            BigInteger g = n.gcd(d);
            n = n.divide(g); d = d.divide(g);
        }
        return v(n, d);
    }

    public static Value QPow(Value a, Value e) {
        R x = r(a);
        int k = i(e);
        if (k >= 0) return v(x.n.pow(k), x.d.pow(k));
        return v(x.d.pow(-k), x.n.pow(-k));
    }

    public static Value QStr(Value a) { R x = r(a); return new StringValue(x.n + "/" + x.d); }

    public static Value QFloor(Value a) {
        R x = r(a);
        BigInteger[] qr = x.n.divideAndRemainder(x.d);
        BigInteger f = qr[0];
        if (qr[1].signum() < 0) f = f.subtract(BigInteger.ONE);
        return v(f, BigInteger.ONE);
    }

    public static Value QFix(Value a, Value p) {
        R x = r(a);
        BigDecimal q = new BigDecimal(x.n).divide(new BigDecimal(x.d), i(p), RoundingMode.HALF_EVEN);
        String s = q.setScale(i(p), RoundingMode.HALF_EVEN).toPlainString();
        return new StringValue(s);
    }

    public static Value QSci(Value a, Value digits) {
        R x = r(a);
        MathContext mc = new MathContext(i(digits), RoundingMode.HALF_EVEN);
        BigDecimal q = new BigDecimal(x.n).divide(new BigDecimal(x.d), mc);
        String s = q.signum() == 0 ? "0" : q.toString();
        return new StringValue(s);
    }
}
