----------------------------- MODULE CreateTrace -----------------------------
(***************************************************************************)
(* Trace validation (implementation -> specification) of the create loop.  *)
(* The real `sfs create`, built with --cfg sfs_verif, appends one JSON     *)
(* line per loop iteration to a trace file (hook H1): the kind of site     *)
(* and, AFTER the update, the counters and the total mass of the spectrum. *)
(* This module replays such a trace against the actions of                 *)
(* CreateCounters.tla: event k is accepted only if the action it names is  *)
(* enabled in the current state AND every logged field equals the          *)
(* specification's next state.  All invariants of CreateCounters are       *)
(* evaluated after every consumed event.  Acceptance = every line was      *)
(* consumed (TraceAccepted, a POSTCONDITION on the diameter).              *)
(* Several runs are concatenated in one file; a "build" event starts the   *)
(* next run (reset).                                                       *)
(***************************************************************************)
EXTENDS CreateCounters, Json, IOUtils, TLC, Sequences

Rec == ndJsonDeserialize(IOEnv.TRACE)

VARIABLE l          \* next line of the trace
tvars == <<phase, sites, skipped, applied, out, strict, l>>

Ev == Rec[l]
IsEvent(e) == l <= Len(Rec) /\ Ev.event = e /\ l' = l + 1

(* the hook logs (total mass - counted records) in 1e-9 units: rounding noise only *)
MassMatches(excess, nsites) == excess <= 100 + nsites /\ excess >= -100 - nsites

TraceInit == /\ l = 1 /\ phase = "done" /\ sites = 0 /\ skipped = 0 /\ applied = 0 /\ out = TRUE /\ strict = FALSE

(* a new process: the counter machine's initial condition, with the logged strict flag *)
TBuild == /\ IsEvent("build")
          /\ phase \in {"done", "failed"}             \* the previous run (if any) has ended
          /\ phase' = "read" /\ sites' = 0 /\ skipped' = 0 /\ applied' = 0 /\ out' = FALSE
          /\ strict' = Ev.strict

TSite == /\ IsEvent("site")
         /\ \/ Ev.kind \in {"standard", "projected"} /\ Apply
            \/ Ev.kind = "insufficient" /\ Skip
         /\ sites' = Ev.sites /\ skipped' = Ev.skipped            \* logged post-state
         /\ MassMatches(Ev.excess_nano, sites')

TFail == IsEvent("fail") /\ Fail

TFinish == /\ IsEvent("finish") /\ Finish
           /\ Ev.sites = sites /\ Ev.skipped = skipped

(* "written" is only legal when the specification already says the output was committed *)
TWritten == /\ IsEvent("written") /\ out /\ phase = "done"
            /\ UNCHANGED <<phase, sites, skipped, applied, out, strict>>

TraceNext == TBuild \/ TSite \/ TFail \/ TFinish \/ TWritten
TraceSpec == TraceInit /\ [][TraceNext]_tvars

TraceAccepted ==
    LET d == TLCGet("stats").diameter IN
    IF d - 1 = Len(Rec) THEN TRUE
    ELSE Print(<<"TRACE-REJECTED at line", d, IF d <= Len(Rec) THEN Rec[d] ELSE "end">>, FALSE)
=============================================================================
