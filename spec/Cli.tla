--------------------------------- MODULE Cli ---------------------------------
(***************************************************************************)
(* C17: every invocation ends in success or a diagnosed error.             *)
(*                                                                         *)
(* One process = one behaviour:                                            *)
(*     Start -> Parse -> Read -> Compute -> Write -> Exit                  *)
(* Each stage either passes the work on or ends the process with           *)
(* ExitErr(diagnostic).  There is no Panic action in the reference         *)
(* machine: a Rust panic, an arithmetic overflow or an out-of-bounds       *)
(* access is not a legal way to leave any stage.  The as-built panics      *)
(* found by reading the code are predicates (AsBuiltPanics); with          *)
(* AB_Panics = TRUE the machine gains the Panic step and TLC must report   *)
(* NoPanic violated (non-vacuity, and a list of the scenarios to pin).     *)
(*                                                                         *)
(* Scenario kinds (all enumerated by TLC):                                 *)
(*   stat    statistic(14) x shape: Exit0 when admissible, ExitErr when    *)
(*           the dimensionality (or the 3x3 shape) is wrong, either one    *)
(*           when the dimensionality is right but a length is degenerate   *)
(*   view    option values at and beyond their bounds on small shapes      *)
(*   fold    degenerate shapes x fill x precision                          *)
(*   input   empty / short / absurd spectrum inputs                        *)
(*   samples contradictory sample lists for create                         *)
(*   shapeop every tool/option on empty spectra with inner zero-length     *)
(*           axes and absurdly long other axes                             *)
(*   threads --threads far beyond any bound, per container                 *)
(*   mutate  (format, field, damage) classes; the bytes are concretised    *)
(*           with seeded randomness by the harness - TLC enumerates WHERE  *)
(*           and HOW a file is damaged, not the bytes                      *)
(***************************************************************************)
EXTENDS Stats, TLC, Json

CONSTANTS StatShapes, ViewShapes, AB_Panics

VARIABLES phase, sc, outcome
vars == <<phase, sc, outcome>>

Ok == [k |-> "exit0"]
Err(why) == [k |-> "exiterr", diag |-> why]
Panic == [k |-> "panic"]
Running == [k |-> "running"]

(******************************* scenarios *******************************)
ViewOpts ==
    [opt : {"precision"}, val : {"0", "17", "18", "100", "1000", "65535", "65536", "70000"}]
    \cup [opt : {"marginalize-remove", "marginalize-keep"}, val : {"0", "1", "0,0", "0,1", "1,0", "7", "0,1,2,3", "4294967296", "0,1,0", "2,0,2", "1,0,1,0", "3,2,1", "2,1"}]
    \cup [opt : {"project-shape"}, val : {"0", "1", "2", "1,1", "2,2", "0,0", "99", "3,3,3", "18446744073709551615"}]
    \cup [opt : {"project-individuals"}, val : {"0", "1", "0,0", "5", "9223372036854775807"}]
    \cup [opt : {"mask-monomorphic", "normalize", "none"}, val : {""}]

Inputs ==
    {"empty", "1byte", "5bytes", "shape_only", "magic_only", "magic_v1_nolen", "text_no_values", "text_shape_empty",
     "text_shape_zero", "text_shape_overflow", "text_shape_negative", "text_huge_value", "text_nan_values", "npy_shape_overflow",
     "npy_shape_zero", "npy_header_len_huge", "text_shape_zero_overflow", "npy_shape_zero_overflow", "npy_shape_scalar", "npy_shape_scalar_novalue", "text_shape_scalar_like", "text_shape_arabic_digit", "text_shape_superscript", "text_shape_fullwidth",
     "text_shape_half_after", "text_value_fullwidth", "npy_v9", "npy_dict_garbage", "npy_shape_nonint", "binary_garbage", "utf8_bom_text"}

SampleLists ==
    {"dup_same_label", "dup_diff_label", "dup_unnamed_named", "unknown", "empty_arg", "empty_file", "only_equals", "trailing_comma",
     "label_only", "tabs_in_arg", "blank_lines_file", "all_samples_twice",
     \* a repeated sample whose second label is NEW, followed by yet another new label (population ids must stay dense)
     "dup_new_then_new", "dup_new_then_old", "dup_unnamed_then_new", "dup_twice_then_new"}

Formats == {"vcf", "bcf", "npy", "text"}
FieldsOf(f) ==
    CASE f = "vcf" -> {"fileformat", "header_line", "chrom", "pos", "ref_alt", "format", "gt", "line_end"}
      [] f = "bcf" -> {"magic", "l_text", "header_text", "l_shared", "l_indiv", "chrom", "pos", "n_sample", "gt_type", "gt_values"}
      [] f = "npy" -> {"magic", "version", "header_len", "descr", "fortran", "shape", "padding", "data"}
      [] f = "text" -> {"prefix", "shape", "newline", "values"}
Damages == {"bitflip", "delete", "duplicate", "huge_number", "negative", "nul", "truncate_here"}

(* shapes as written in the file: lengths beyond TLC's integers are text *)
AbsurdShapes ==
    {"2/0/3", "0/3", "3/0", "0/0", "0/0/0", "1/0/1", "0/1", "0/2/2/2", "3/3/0", "2/3/0/2",
     "0/18446744073709551615/18446744073709551615", "18446744073709551615/0", "0/18446744073709551615",
     "18446744073709551615/0/18446744073709551615"}
    \* (only lengths at which any non-empty result cannot even be addressed: an axis of 2^32 next to a zero axis would
    \*  legitimately ask for gigabytes of zeros, which is resource use, not a defect)
ShapeOps ==
    {<<"view">>, <<"view", "-m", "0">>, <<"view", "-m", "1">>, <<"view", "-m", "2">>, <<"view", "-m", "0,1">>, <<"view", "-m", "1,2">>,
     <<"view", "-M", "0">>, <<"view", "-M", "1">>, <<"view", "-M", "2">>, <<"view", "-p", "1,1,1">>, <<"view", "-p", "0,0,0">>,
     <<"view", "-p", "1,1">>, <<"view", "--project-shape", "1,1">>, <<"view", "--project-shape", "1,1,1">>, <<"view", "-n">>,
     <<"view", "--mask-monomorphic">>, <<"view", "-O", "npy">>, <<"view", "-m", "0", "-n", "--mask-monomorphic">>,
     <<"fold">>, <<"fold", "-s", "0">>}
    \cup {<<"stat", "-s", st>> : st \in {"sum", "s", "pi", "theta", "d-tajima", "d-fu-li", "pi-xy", "f2", "fst", "king", "r0", "r1", "f3", "f4"}}
ThreadCounts == {"1", "16", "64", "257", "1000", "20000", "100000", "4294967296", "9223372036854775807", "18446744073709551615"}

Scenarios ==
    [kind : {"stat"}, stat : StatNames, shape : StatShapes]
    \cup [kind : {"view"}, o : ViewOpts, shape : ViewShapes]
    \cup [kind : {"fold"}, shape : ViewShapes \cup {<<0>>, <<1>>, <<1, 1>>, <<0, 3>>}, fill : {"nan", "zero", "minus-one", "inf"}, precision : {"0", "6", "400"}]
    \* (a reader that lets a degenerate input through hands it to every consumer: each statistic is a consumer of its own)
    \cup [kind : {"input"}, input : Inputs, tool : {"view", "fold", "stat"} \cup {"stat-" \o st : st \in {"king", "r0", "f2", "fst", "pi", "d-tajima", "f4", "s"}}]
    \cup [kind : {"samples"}, list : SampleLists, project : BOOLEAN]
    \cup [kind : {"mutate"}, format : Formats, field : UNION {FieldsOf(f) : f \in Formats}, damage : Damages]
    \* sizes at which binomial coefficients leave the f64 range and the log-gamma path is taken
    \cup [kind : {"view"}, o : [opt : {"project-shape"}, val : {"551", "2", "1100", "1101"}], shape : {<<1101>>}]
    \cup [kind : {"view"}, o : [opt : {"project-individuals"}, val : {"275", "100"}], shape : {<<1101>>, <<301, 3>>}]
    \cup [kind : {"stat"}, stat : {"pi", "theta", "d_tajima", "d_fu_li", "s", "sum"}, shape : {<<1101>>, <<172>>}]
    \* many axes: npy dict exactly on a 64-byte boundary (21 axes), and a header longer than 65535 bytes (22000 axes)
    \cup [kind : {"view"}, o : [opt : {"none", "mask-monomorphic"}, val : {""}],
           shape : {[i \in 1..21 |-> IF i = 1 THEN 10 ELSE 1], [i \in 1..20 |-> IF i = 1 THEN 0 ELSE IF i <= 5 THEN 10 ELSE 1],
                    [i \in 1..22000 |-> 1]}]
    \cup [kind : {"view"}, o : [opt : {"project-individuals"}, val : {"9223372036854775807", "9223372036854775808", "4611686018427387904"}], shape : {<<3>>}]
    \* two-axis shapes with the element count of the one admissible shape (9 = 3 x 3) and neighbours, for king / r0 / r1
    \cup [kind : {"stat"}, stat : {"king", "r0", "r1", "f2", "fst", "pi_xy"}, shape : {<<1, 9>>, <<9, 1>>, <<3, 3>>, <<9>>, <<3, 3, 1>>, <<1, 3, 3>>, <<3, 4>>, <<4, 3>>}]
    \* empty spectra whose zero-length axis is not the last one, next to absurdly long axes: every tool and option on them
    \cup [kind : {"shapeop"}, shape : AbsurdShapes, format : {"text", "npy"}, op : ShapeOps]
    \* stdout is dead from the first byte (a pipe nobody reads: EPIPE; a full device: ENOSPC): every tool and every line it
    \* writes there - the header line of `stat -H' included - ends in a diagnosed error, not in success and not in a panic
    \cup [kind : {"deadsink"}, tool : {"view", "view-npy", "fold", "stat", "stat-header", "stat-header-many", "create"}, sink : {"epipe", "enospc"}]
    \* `stat --precision' takes one value or one value PER statistic: values at and beyond the bound of the formatting machinery
    \* (65535) in either form and in every position, lists of the wrong length, empty and negative entries
    \* (a length mismatch must be an error; anything else may succeed or fail, never panic)
    \cup [kind : {"statprec"}, stats : {"sum", "pi,theta", "sum,pi,theta,d-tajima"},
          precs : {"65535", "65536", "70000", "4294967296", "18446744073709551616", "2,65535", "2,65536", "65536,2", "70000,70000",
                   "1,2,3,65536", "65536,1,2,3", "1,2,3", "1,2,3,4,5", "", "2,,3", "-1", "2,-1"}, header : BOOLEAN]
    \* an npy header that cannot be parsed and holds a two-byte character at byte offset k (version 3.0 headers are UTF-8): whatever
    \* is quoted, cut or padded in the diagnostic, no offset may matter
    \cup [kind : {"npyjunk"}, k : 0..130, version : {1, 2, 3}]
    \* axis lists that are wrong whatever the spectrum holds - a duplicate, an axis that does not exist, every axis - on EMPTY
    \* spectra as well as on ordinary ones: the request is refused before anything is computed
    \cup [kind : {"badaxes"}, shape : {"0/3", "2/0/3", "3/0", "0/0", "3/4", "2/3/2"}, format : {"text", "npy"},
          op : {<<"-m", "0,0">>, <<"-m", "7">>, <<"-m", "0,1,2">>, <<"-M", "9">>, <<"-m", "1,0,1">>, <<"-m", "3">>}]
    \* one population per sample for so many samples that the spectrum (3^n cells) cannot be addressed: a request error
    \* (with a projection to one or two individuals per population the OUTPUT is small and the request is fine)
    \cup [kind : {"manypops"}, n : {40, 45, 64}, project : {"no", "same", "tiny"}]
    \* --threads at and beyond any sensible bound, on every container
    \cup [kind : {"threads"}, t : ThreadCounts, container : {"vcf", "vcf.gz", "bcf", "rawbcf"}]

WellFormed(s) == s.kind = "mutate" => s.field \in FieldsOf(s.format)

(****************************** expectations ******************************)
(* statistic x shape: the admissibility table *)
DimOf(stat) == CASE stat = "sum" -> 0
                 [] stat \in {"s", "pi", "theta", "d_tajima", "d_fu_li"} -> 1
                 [] stat \in {"pi_xy", "f2", "fst", "king", "r0", "r1"} -> 2
                 [] stat = "f3" -> 3 [] stat = "f4" -> 4
StatDomain(stat, sh) ==
    IF stat = "s" THEN (IF \A j \in 1..Len(sh) : sh[j] >= 2 THEN "ok" ELSE "ok_or_err")   \* S is defined for any number of populations
    ELSE IF DimOf(stat) # 0 /\ DimOf(stat) # Len(sh) THEN "err"    \* wrong dimensionality: must be an error
    ELSE IF stat \in {"king", "r0", "r1"} /\ sh # <<3, 3>> THEN "err"
    ELSE IF Admissible(stat, sh) THEN "ok"
    ELSE "ok_or_err"                                             \* right dimensionality, degenerate lengths

Expect(s) ==
    CASE s.kind = "stat" -> StatDomain(s.stat, s.shape)
      [] s.kind = "manypops" -> IF s.project = "tiny" THEN "ok" ELSE "err"
      [] s.kind = "badaxes" -> "err"
      [] s.kind = "npyjunk" -> "err"
      [] s.kind = "deadsink" -> "err"
      [] s.kind = "statprec" -> IF s.precs \in {"1,2,3", "1,2,3,4,5"} /\ s.stats # "sum" THEN "err" ELSE "ok_or_err"
      [] s.kind = "threads" -> "ok"            \* any --threads value behaves like any other (C12)
      [] OTHER -> "ok_or_err"

(* the panics present in the code as found (documentation of the as-built behaviour) *)
AsBuiltPanics(s) ==
    \/ s.kind = "stat" /\ s.stat \in {"d_fu_li", "d_tajima"} /\ s.shape = <<1>>
    \/ s.kind = "stat" /\ s.stat = "fst" /\ Len(s.shape) = 2 /\ (s.shape[1] = 1 \/ s.shape[2] = 1)
    \/ s.kind = "fold" /\ Elements(s.shape) = 0
    \/ s.kind = "view" /\ s.o.opt = "mask-monomorphic" /\ Elements(s.shape) = 0
    \/ s.kind = "view" /\ s.o.opt = "precision" /\ s.o.val \in {"65536", "70000"}
    \/ s.kind = "samples" /\ s.list \in {"dup_diff_label", "dup_unnamed_named"}
    \/ s.kind = "input" /\ s.input \in {"empty", "1byte", "5bytes", "text_shape_overflow", "npy_shape_overflow"}
    \/ s.kind = "manypops"
    \/ s.kind = "shapeop" /\ s.shape = "2/0/3" /\ s.op = <<"view", "-m", "2">>
    \/ s.kind = "shapeop" /\ s.shape = "0/18446744073709551615/18446744073709551615" /\ s.op \in {<<"fold">>, <<"view", "-m", "0">>}
    \/ s.kind = "threads" /\ s.t \in {"20000", "100000", "4294967296", "9223372036854775807", "18446744073709551615"} /\ s.container \in {"vcf.gz", "bcf"}

(******************************** machine ********************************)
Init == /\ sc \in {s \in Scenarios : WellFormed(s)} /\ phase = "start" /\ outcome = Running

Stage(from, to) == /\ phase = from /\ outcome = Running /\ phase' = to /\ UNCHANGED <<sc, outcome>>
Parse == Stage("start", "parsed")
Read == Stage("parsed", "read")
Compute == Stage("read", "computed")
Write == Stage("computed", "written")

(* any stage may end the process with a diagnosed error when the scenario allows it *)
Fail == /\ outcome = Running /\ phase \in {"start", "parsed", "read", "computed"}
        /\ Expect(sc) \in {"err", "ok_or_err"}
        /\ outcome' = Err(phase) /\ phase' = "exit"
        /\ UNCHANGED sc

Exit == /\ phase = "written" /\ outcome = Running
        /\ Expect(sc) \in {"ok", "ok_or_err"}
        /\ outcome' = Ok /\ phase' = "exit" /\ UNCHANGED sc

DoPanic == /\ AB_Panics /\ outcome = Running /\ AsBuiltPanics(sc)
           /\ outcome' = Panic /\ phase' = "exit" /\ UNCHANGED sc

Next == Parse \/ Read \/ Compute \/ Write \/ Fail \/ Exit \/ DoPanic
Spec == Init /\ [][Next]_vars

NoPanic == outcome # Panic
ErrHasDiag == outcome.k = "exiterr" => outcome.diag # ""
OutcomeAllowed ==
    phase = "exit" => CASE Expect(sc) = "ok" -> outcome = Ok
                        [] Expect(sc) = "err" -> outcome.k = "exiterr"
                        [] OTHER -> outcome.k \in {"exit0", "exiterr"}

Emit == (phase = "start") => PrintT("REPLAY " \o ToJson([family |-> "cli", sc |-> sc, expect |-> Expect(sc)]))
=============================================================================
