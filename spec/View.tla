-------------------------------- MODULE View --------------------------------
(***************************************************************************)
(* C13: `sfs view' applies, of the options given, marginalize, then        *)
(* project, then mask-monomorphic, then normalize - and the result equals  *)
(* piping the spectrum losslessly through single-option invocations in     *)
(* that order.                                                             *)
(*                                                                         *)
(* The state is a symbolic spectrum (SpectrumOps) plus `norm', the linear  *)
(* form of the divisor applied by normalize (LFZero = not normalized).     *)
(* Each selected option is an action enabled at most once.  In the         *)
(* reference configuration (AnyOrder = FALSE) an action is enabled only    *)
(* when every selected option that precedes it in the documented order has *)
(* been applied.  With AnyOrder = TRUE the actions may fire in any order   *)
(* and TLC must find a selection whose final state differs from the        *)
(* documented one (the orders that matter are not vacuous); it also tells  *)
(* which swaps are invisible: project/normalize and marginalize/project    *)
(* commute exactly.                                                        *)
(***************************************************************************)
EXTENDS SpectrumOps, Json

CONSTANTS ShapeSet, AnyOrder,
          DestSet,           \* where the result goes: "stdout", or -o PATH naming a "fresh" path, a "stale" file (older and
                             \* LONGER content) or the input file itself ("inplace")
          AB_KeepOldTail,    \* sabotage (seeded change C13d): the destination is opened without truncation
          PermuteNames,      \* the axis lists of -m / --marginalize-keep are LISTS as typed: explore every order of naming
          AB_TrustNamedOrder \* sabotage (seeded change C13i): the removal assumes the list was typed in ascending order

VARIABLES shape0, opts, sp, norm, applied,
          dest,              \* the destination of this invocation
          file               \* what the destination holds: [k |-> "none"] | [k |-> "old"] | [k |-> "result", tail |-> BOOLEAN]
vars == <<shape0, opts, sp, norm, applied, dest, file>>

Rank(op) == CASE op = "marg" -> 1 [] op = "proj" -> 2 [] op = "mask" -> 3 [] op = "norm" -> 4

(* the options of one invocation: marg = set of removed axes ({} = not given), proj = target (<<>> = not given) *)
MargChoices(sh) == {S \in SUBSET (1..Len(sh)) : Cardinality(S) < Len(sh)}
ProjChoices(sh) ==
    {<<>>}
    \cup {[j \in 1..Len(sh) |-> IF sh[j] > 1 THEN sh[j] - 1 ELSE 1]}
    \cup {[j \in 1..Len(sh) |-> IF sh[j] > 2 THEN 2 ELSE sh[j]]}
    \cup {[j \in 1..Len(sh) |-> 1]}   \* down to a single cell (no individuals): first and last entry coincide there
    \cup {sh}                         \* the identity projection, spelled for the axes that remain (their lengths, in their order)

(* an axis list as typed: any order of the same set when PermuteNames, ascending otherwise *)
RECURSIVE Perms(_)
Perms(S) == IF S = {} THEN {<<>>} ELSE UNION {{<<a>> \o t : t \in Perms(S \ {a})} : a \in S}
Namings(S) == IF PermuteNames THEN Perms(S) ELSE {SortedSeq(S)}

(* removal one axis at a time in the order given: the axis typed as seq[i] (numbered on the ORIGINAL spectrum) is, when its *)
(* turn comes, axis seq[i] minus the number of already removed axes before it.  The as-built shortcut numbers it as if   *)
(* every earlier-typed axis were smaller (true exactly for ascending lists).                                              *)
RECURSIVE RemoveInOrder(_, _, _)
RemoveInOrder(x, seq, i) ==
    IF i > Len(seq) THEN x
    ELSE LET before == IF AB_TrustNamedOrder THEN i - 1 ELSE Cardinality({j \in 1..(i - 1) : seq[j] < seq[i]})
             cur == seq[i] - before
         IN  IF cur < 1 \/ cur > Len(x.shape) THEN x   \* (the sabotaged numbering can leave the spectrum)
             ELSE RemoveInOrder(MarginalizeDecl(x, {cur}), seq, i + 1)

Selected(o) == (IF o.marg # {} THEN {"marg"} ELSE {}) \cup (IF o.proj # <<>> THEN {"proj"} ELSE {})
               \cup (IF o.mask THEN {"mask"} ELSE {}) \cup (IF o.norm THEN {"norm"} ELSE {})

Init ==
    /\ shape0 \in ShapeSet
    /\ \E m \in MargChoices(shape0) :
        \E p \in ProjChoices(KeepShape(shape0, m)) :
          \E k \in BOOLEAN, n \in BOOLEAN, spell \in {"remove", "keep"} :
            \E nm \in Namings(IF spell = "remove" THEN m ELSE (1..Len(shape0)) \ m) :
              /\ (m = {} => spell = "remove")
              /\ (~PermuteNames => spell = "remove")
              /\ opts = [marg |-> m, proj |-> p, mask |-> k, norm |-> n, spell |-> spell, named |-> nm]
    /\ sp = Identity(shape0)
    /\ norm = LFZero
    /\ applied = <<>>
    /\ dest \in DestSet
    /\ file = IF dest \in {"stale", "inplace"} THEN [k |-> "old"] ELSE [k |-> "none"]

Done(op) == \E i \in 1..Len(applied) : applied[i] = op
MayApply(op) ==
    /\ op \in Selected(opts) /\ ~Done(op)
    /\ AnyOrder \/ \A o \in Selected(opts) : Rank(o) < Rank(op) => Done(o)

(* the projection target refers to the axes that remain after marginalization; when (in a wrong *)
(* order) projection comes first it must be spelled for the full shape                          *)
Marg == /\ MayApply("marg")
        /\ sp' = IF opts.spell = "remove" THEN RemoveInOrder(sp, opts.named, 1)     \* as typed, one axis at a time
                 ELSE MarginalizeDecl(sp, opts.marg)                           \* keep: the complement, whatever the order typed
        /\ applied' = Append(applied, "marg")
        /\ UNCHANGED <<shape0, opts, norm, dest, file>>

ProjTargetNow ==
    IF Len(sp.shape) = Len(opts.proj) THEN opts.proj
    ELSE LET rem == Remaining(shape0, opts.marg)
         IN  [a \in 1..Len(shape0) |->
                 IF a \in opts.marg THEN shape0[a]
                 ELSE opts.proj[CHOOSE j \in 1..Len(rem) : rem[j] = a]]

Proj == /\ MayApply("proj")
        /\ sp' = ProjectDecl(sp, ProjTargetNow)
        /\ applied' = Append(applied, "proj")
        /\ UNCHANGED <<shape0, opts, norm, dest, file>>

Mask == /\ MayApply("mask")
        /\ sp' = MaskOp(sp)
        /\ applied' = Append(applied, "mask")
        /\ UNCHANGED <<shape0, opts, norm, dest, file>>

Norm == /\ MayApply("norm")
        /\ norm' = Total(sp)
        /\ applied' = Append(applied, "norm")
        /\ UNCHANGED <<shape0, opts, sp, dest, file>>

Computed == \A op \in Selected(opts) : Done(op)

(* the output commit: the destination is created or TRUNCATED and then holds the rendering of the result and nothing *)
(* else - whatever it held before (an older, longer output; the input itself) leaves no trace                       *)
Commit == /\ Computed /\ file.k # "result"
          /\ file' = [k |-> "result", tail |-> (AB_KeepOldTail /\ file.k = "old")]
          /\ UNCHANGED <<shape0, opts, sp, norm, applied, dest>>

Next == Marg \/ Proj \/ Mask \/ Norm \/ Commit
Spec == Init /\ [][Next]_vars

Finished == Computed /\ file.k = "result"

(* the documented pipeline as one expression *)
Documented ==
    LET a == IF opts.marg # {} THEN MarginalizeDecl(Identity(shape0), opts.marg) ELSE Identity(shape0)
        b == IF opts.proj # <<>> THEN ProjectDecl(a, opts.proj) ELSE a
        c == IF opts.mask THEN MaskOp(b) ELSE b
    IN  [sp |-> c, norm |-> IF opts.norm THEN Total(c) ELSE LFZero]

(******************************* invariants *******************************)
EqualsDocumented == Finished => (sp = Documented.sp /\ norm = Documented.norm)

(* mask zeroes exactly the all-zero and the all-maximum entry *)
MaskExact ==
    (applied # <<>> /\ applied[Len(applied)] = "mask") =>
        LET n == Elements(sp.shape) IN
        /\ sp.cells[1] = LFZero /\ sp.cells[n] = LFZero

(* right after normalize the entries sum to one: the divisor is the total *)
NormalizedSumsToOne ==
    (applied # <<>> /\ applied[Len(applied)] = "norm") => norm = Total(sp)

(* the destination holds exactly the result: combined and chained invocations agree on FILES too *)
DestinationHoldsOnlyResult == Finished => ~file.tail

NoOptionsIsIdentity == (Selected(opts) = {} /\ applied = <<>>) => sp = Identity(shape0)

Emit ==
    Finished =>
        PrintT("REPLAY " \o ToJson([family |-> "view", shape |-> shape0,
                                    marg |-> {a - 1 : a \in opts.marg},
                                    spell |-> IF PermuteNames THEN opts.spell ELSE "any",
                                    named |-> [i \in 1..Len(opts.named) |-> opts.named[i] - 1], proj |-> opts.proj, mask |-> opts.mask, norm |-> opts.norm,
                                    applied |-> applied, dest |-> dest,
                                    result |-> SpJson(sp), divisor |-> LFJson(norm)]))
=============================================================================
