----------------------------- MODULE CreateLarge -----------------------------
(***************************************************************************)
(* C02 for cohorts of hundreds of samples.  Create.tla enumerates every    *)
(* genotype row of a few samples; here a record is given at CLASS level -   *)
(* per population the number of called individuals c_j and of ALT alleles   *)
(* a_j - which is all the statement of C02 depends on, and the cohort may   *)
(* have hundreds of individuals per population.  The machine applies the    *)
(* records one at a time (ApplyRecord) and keeps the exact spectrum         *)
(* (module Q, BigInteger binomials); Conservation holds in every state.     *)
(* The harness renders each scenario as a VCF with exactly those counts.    *)
(***************************************************************************)
EXTENDS Shapes, Q, TLC, Json

CONSTANT Scenarios   \* set of [pops |-> <<n_1, ..>>, proj |-> <<shape values>>, recs |-> <<record, ..>>], record = <<<<c_1, a_1>>, ..>>

VARIABLES sc, i, scs, skipped
vars == <<sc, i, scs, skipped>>

D == Len(sc.pops)
M == [j \in 1..D |-> sc.proj[j] - 1]
Covered(rec) == \A j \in 1..D : 2 * rec[j][1] >= M[j]
Contribution(rec) ==
    [q \in 1..Elements(sc.proj) |->
        LET k == Unflat(sc.proj, q - 1)
        IN  QProdSeq([j \in 1..D |-> QHyp(2 * rec[j][1], rec[j][2], M[j], k[j])])]

(* For outputs of tens of thousands of cells the spectrum is not materialised as exact rationals: a scenario marked   *)
(* `factored' keeps, per counted record, the one-axis rows whose outer product is its contribution (the law that the *)
(* contribution separates this way is checked on materialised scenarios by SeparatesIntoRows).                        *)
Factored == "factored" \in DOMAIN sc /\ sc.factored
Row(rec, j) == [k \in 1..(M[j] + 1) |-> QHyp(2 * rec[j][1], rec[j][2], M[j], k - 1)]

Init == /\ sc \in Scenarios /\ i = 0 /\ skipped = 0
        /\ scs = IF Factored THEN <<>> ELSE [q \in 1..Elements(sc.proj) |-> QZero]

ApplyRecord ==
    /\ i < Len(sc.recs)
    /\ LET rec == sc.recs[i + 1] IN
       IF Covered(rec) /\ Factored
       THEN UNCHANGED <<scs, skipped>>
       ELSE IF Covered(rec)
       THEN LET c == TLCEval(Contribution(rec)) IN
            /\ scs' = TLCEval([q \in 1..Len(scs) |-> QAdd(scs[q], c[q])])
            /\ UNCHANGED skipped
       ELSE /\ skipped' = skipped + 1 /\ UNCHANGED scs
    /\ i' = i + 1
    /\ UNCHANGED sc

Next == ApplyRecord
Spec == Init /\ [][Next]_vars

WellFormed == \A r \in 1..Len(sc.recs) : \A j \in 1..D :
                 sc.recs[r][j][1] <= sc.pops[j] /\ sc.recs[r][j][2] <= 2 * sc.recs[r][j][1]
Conservation == ~Factored => QAdd(QSumSeq(scs), QI(skipped)) = QI(i)
NonNegative == \A q \in 1..Len(scs) : ~QLt(scs[q], QZero)

(* every one-axis row of a counted record is a probability distribution (so every outer product has mass one) *)
RowsAreDistributions ==
    (Factored /\ i > 0 /\ Covered(sc.recs[i])) =>
        \A j \in 1..D : LET row == TLCEval(Row(sc.recs[i], j))
                         IN  QSumSeq(row) = QOne /\ \A k \in 1..Len(row) : ~QLt(row[k], QZero)
(* on materialised scenarios: the contribution IS the outer product of those rows *)
SeparatesIntoRows ==
    (~Factored /\ i > 0 /\ Covered(sc.recs[i]) /\ Elements(sc.proj) <= 2000) =>
        LET rec == sc.recs[i]
            rows == [j \in 1..D |-> TLCEval(Row(rec, j))]
            c == Contribution(rec)
        IN  \A q \in 1..Elements(sc.proj) :
                LET k == Unflat(sc.proj, q - 1) IN c[q] = QProdSeq([j \in 1..D |-> rows[j][k[j] + 1]])

Emit == (i = Len(sc.recs)) =>
    PrintT("REPLAY " \o ToJson([family |-> "createlarge", pops |-> sc.pops, proj |-> sc.proj, recs |-> sc.recs,
                                skipped |-> skipped, factored |-> Factored,
                                rows |-> IF Factored
                                         THEN [r \in 1..Len(sc.recs) |->
                                                 IF Covered(sc.recs[r])
                                                 THEN [j \in 1..D |-> [k \in 1..(M[j] + 1) |-> QSci(Row(sc.recs[r], j)[k], 25)]]
                                                 ELSE <<>>]
                                         ELSE <<>>,
                                scs |-> [q \in 1..Len(scs) |-> QSci(scs[q], 25)]]))
=============================================================================
