----------------------------- MODULE CreateLarge -----------------------------
(***************************************************************************)
(* C02 for cohorts of hundreds of samples.  Create.tla enumerates every    *)
(* genotype row of a few samples; here a record is given at CLASS level -   *)
(* per population the number of called individuals c_j and of ALT alleles   *)
(* a_j - which is all the statement of C02 depends on, and the cohort may   *)
(* have hundreds of individuals per population.  The machine applies the    *)
(* records one at a time (ApplyRecord) and keeps the exact spectrum         *)
(* (module Q, BigInteger binomials); Conservation holds in every state.     *)
(* The harness renders each scenario as a VCF with exactly those counts.    *)
(***************************************************************************)
EXTENDS Shapes, Q, TLC, Json

CONSTANT Scenarios   \* set of [pops |-> <<n_1, ..>>, proj |-> <<shape values>>, recs |-> <<record, ..>>], record = <<<<c_1, a_1>>, ..>>

VARIABLES sc, i, scs, skipped
vars == <<sc, i, scs, skipped>>

D == Len(sc.pops)
M == [j \in 1..D |-> sc.proj[j] - 1]
Covered(rec) == \A j \in 1..D : 2 * rec[j][1] >= M[j]
Contribution(rec) ==
    [q \in 1..Elements(sc.proj) |->
        LET k == Unflat(sc.proj, q - 1)
        IN  QProdSeq([j \in 1..D |-> QHyp(2 * rec[j][1], rec[j][2], M[j], k[j])])]

Init == /\ sc \in Scenarios /\ i = 0 /\ skipped = 0
        /\ scs = [q \in 1..Elements(sc.proj) |-> QZero]

ApplyRecord ==
    /\ i < Len(sc.recs)
    /\ LET rec == sc.recs[i + 1] IN
       IF Covered(rec)
       THEN LET c == TLCEval(Contribution(rec)) IN
            /\ scs' = TLCEval([q \in 1..Len(scs) |-> QAdd(scs[q], c[q])])
            /\ UNCHANGED skipped
       ELSE /\ skipped' = skipped + 1 /\ UNCHANGED scs
    /\ i' = i + 1
    /\ UNCHANGED sc

Next == ApplyRecord
Spec == Init /\ [][Next]_vars

WellFormed == \A r \in 1..Len(sc.recs) : \A j \in 1..D :
                 sc.recs[r][j][1] <= sc.pops[j] /\ sc.recs[r][j][2] <= 2 * sc.recs[r][j][1]
Conservation == QAdd(QSumSeq(scs), QI(skipped)) = QI(i)
NonNegative == \A q \in 1..Len(scs) : ~QLt(scs[q], QZero)

Emit == (i = Len(sc.recs)) =>
    PrintT("REPLAY " \o ToJson([family |-> "createlarge", pops |-> sc.pops, proj |-> sc.proj, recs |-> sc.recs,
                                skipped |-> skipped, scs |-> [q \in 1..Len(scs) |-> QSci(scs[q], 25)]]))
=============================================================================
