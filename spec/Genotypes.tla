------------------------------ MODULE Genotypes ------------------------------
(***************************************************************************)
(* The GT grammar and its classification (C08).                            *)
(*                                                                         *)
(* A genotype call is a sequence of alleles joined by separators.  An      *)
(* allele is "." (written -1 here) or an index 0, 1, 2, ...; a separator   *)
(* is "/" (unphased) or "|" (phased).                                      *)
(*                                                                         *)
(*   Classify: ploidy # 2            -> PloidyError (the run must fail)    *)
(*             some allele is "."    -> Missing      (precedes Multiallelic)*)
(*             some allele >= 2      -> Multiallelic                       *)
(*             otherwise             -> Alt(k), k = number of alleles = 1  *)
(* Phasing never matters.  Allele indices above MaxAllele behave like      *)
(* MaxAllele >= 2: Classify only tests `>= 2', so the bounded alphabet     *)
(* covers them by symmetry.                                                *)
(*                                                                         *)
(* AB_SumRule is the as-built deviation found by reading the code: it      *)
(* classified by the SUM of the two allele indices, so 0/2 and 2/0 counted *)
(* as two ALT alleles.                                                     *)
(***************************************************************************)
EXTENDS Integers, Sequences, TLC

CONSTANT AB_SumRule

Dot == -1

(* all calls with ploidy in P and alleles in A; separators in {"/", "|"} *)
Calls(P, A) ==
    UNION {{[a |-> al, s |-> sp] : al \in [1..p -> A], sp \in [1..(p - 1) -> {"/", "|"}]} : p \in P}

AlleleStr(x) == IF x = Dot THEN "." ELSE ToString(x)

RECURSIVE RenderFrom(_, _)
RenderFrom(g, i) ==
    IF i > Len(g.a) THEN ""
    ELSE (IF i > 1 THEN g.s[i - 1] ELSE "") \o AlleleStr(g.a[i]) \o RenderFrom(g, i + 1)
Render(g) == RenderFrom(g, 1)

Alt(k) == [c |-> "alt", k |-> k]
Missing == [c |-> "missing"]
Multiallelic == [c |-> "multiallelic"]
PloidyError == [c |-> "ploidy"]
IsAlt(x) == x.c = "alt"

(* VCF overloads a lone "." : it is the missing-VALUE token of any field, so a GT column that is *)
(* just "." carries no genotype at all; it is read as Missing, not as a haploid call.            *)
LoneDot(g) == g.a = <<Dot>>

ClassifyRef(g) ==
    IF LoneDot(g) THEN Missing
    ELSE IF Len(g.a) # 2 THEN PloidyError
    ELSE IF g.a[1] = Dot \/ g.a[2] = Dot THEN Missing
    ELSE IF g.a[1] >= 2 \/ g.a[2] >= 2 THEN Multiallelic
    ELSE Alt((IF g.a[1] = 1 THEN 1 ELSE 0) + (IF g.a[2] = 1 THEN 1 ELSE 0))

ClassifyAsBuilt(g) ==
    IF LoneDot(g) THEN Missing
    ELSE IF Len(g.a) # 2 THEN PloidyError
    ELSE IF g.a[1] = Dot \/ g.a[2] = Dot THEN Missing
    ELSE IF g.a[1] + g.a[2] > 2 THEN Multiallelic
    ELSE Alt(g.a[1] + g.a[2])

Classify(g) == IF AB_SumRule THEN ClassifyAsBuilt(g) ELSE ClassifyRef(g)

(* shorthand constructors used by the record alphabets *)
G2(x, y, sep) == [a |-> <<x, y>>, s |-> <<sep>>]
G1(x) == [a |-> <<x>>, s |-> <<>>]
G3(x, y, z) == [a |-> <<x, y, z>>, s |-> <<"/", "/">>]

(* laws of the classification itself, checked by TLC over the whole alphabet *)
Unphase(g) == [g EXCEPT !.s = [i \in DOMAIN g.s |-> "/"]]
ClassifyLaws(S) ==
    /\ \A g \in S : Classify(g) \in {Missing, Multiallelic, PloidyError} \cup {Alt(k) : k \in 0..2}   \* total
    /\ \A g \in S : Classify(g) = Classify(Unphase(g))                                             \* phasing
    /\ \A g \in S : (Len(g.a) = 2 /\ \E i \in 1..2 : g.a[i] = Dot) => Classify(g) = Missing         \* precedence
    /\ \A g \in S : (Len(g.a) = 2 /\ \A i \in 1..2 : g.a[i] \in {0, 1}) =>
                        Classify(g) = Alt(IF g.a[1] = g.a[2] THEN 2 * g.a[1] ELSE 1)
    /\ \A g \in S : (Len(g.a) = 2 /\ (\A i \in 1..2 : g.a[i] # Dot) /\ (\E i \in 1..2 : g.a[i] >= 2)) =>
                        Classify(g) = Multiallelic
=============================================================================
