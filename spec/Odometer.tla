------------------------------ MODULE Odometer ------------------------------
(***************************************************************************)
(* The odometer of view::Iter (C19) for axis LENGTHS AND STRIDES OF ANY    *)
(* SIZE: ArrayApi.tla explores every shape with lengths up to 5            *)
(* exhaustively; this module fixes the number of axes of the view (two:    *)
(* a view of a three-axis array, the first case where the carry between    *)
(* axes and the back-stride matter) and leaves the lengths L1, L2 and the  *)
(* strides S1, S2 arbitrary integers.  One step = one call of next(),      *)
(* transcribed from core/src/array/view/iter.rs (impl_next_rec with the    *)
(* recursion over the two axes unrolled).                                  *)
(*                                                                         *)
(* IndInv is an INDUCTIVE invariant (Apalache: Init => IndInv, and         *)
(* IndInv /\ Next => IndInv'), so it holds after any number of calls on    *)
(* a view of any size:                                                     *)
(*   - the coordinates stay in range, the offset is their dot product      *)
(*     with the strides, and `index' is the row-major rank of the          *)
(*     coordinates plus one (0 before the first call);                     *)
(*   - hence the item returned by the k-th call is the element whose       *)
(*     coordinates are the k-th in row-major order (Yielded), the          *)
(*     reported length L1*L2 - index is the number of items still to       *)
(*     come, and once it is 0 every call returns None and changes nothing  *)
(*     (Fused);                                                            *)
(*   - the `None' arm of impl_next_rec at the outermost axis is never      *)
(*     reached (NoInnerNone): exhaustion is only ever reported by the      *)
(*     guard in next(), which is why the odometer cannot wrap around.      *)
(***************************************************************************)
EXTENDS Integers

CONSTANTS
    \* @type: Int;
    L1,
    \* @type: Int;
    L2,
    \* @type: Int;
    S1,
    \* @type: Int;
    S2,
    \* @type: Bool;
    AB_NoBackstride    \* sabotage: the carry forgets to take the inner axis back to its start

VARIABLES
    \* @type: Int;
    c1,
    \* @type: Int;
    c2,
    \* @type: Int;
    offset,
    \* @type: Int;
    index,
    \* @type: Int;
    last,      \* what the last call returned: the offset of the element, -1 for None, -2 before the first call
    \* @type: Bool;
    innerNone  \* the None arm inside impl_next_rec was taken

ovars == <<c1, c2, offset, index, last, innerNone>>

Sizes == /\ L1 \in Int /\ L2 \in Int /\ S1 \in Int /\ S2 \in Int
         /\ L1 >= 1 /\ L2 >= 1 /\ S1 >= 0 /\ S2 >= 0
ConstInit == Sizes /\ AB_NoBackstride = FALSE
ConstInitAB == Sizes /\ AB_NoBackstride = TRUE

OInit == c1 = 0 /\ c2 = 0 /\ offset = 0 /\ index = 0 /\ last = -2 /\ innerNone = FALSE

Exhausted == /\ index >= L1 * L2
             /\ last' = -1
             /\ UNCHANGED <<c1, c2, offset, index, innerNone>>

First == /\ index < L1 * L2 /\ index = 0
         /\ index' = 1 /\ last' = 0            \* data.first()
         /\ UNCHANGED <<c1, c2, offset, innerNone>>

Inner == /\ index < L1 * L2 /\ index # 0
         /\ c2 + 1 < L2
         /\ c2' = c2 + 1 /\ offset' = offset + S2 /\ index' = index + 1 /\ last' = offset + S2
         /\ UNCHANGED <<c1, innerNone>>

Carry == /\ index < L1 * L2 /\ index # 0
         /\ ~(c2 + 1 < L2)
         /\ c1 + 1 < L1
         /\ c2' = 0 /\ c1' = c1 + 1
         /\ offset' = (IF AB_NoBackstride THEN offset ELSE offset - S2 * (L2 - 1)) + S1
         /\ index' = index + 1 /\ last' = (IF AB_NoBackstride THEN offset ELSE offset - S2 * (L2 - 1)) + S1
         /\ UNCHANGED innerNone

Overrun == /\ index < L1 * L2 /\ index # 0
           /\ ~(c2 + 1 < L2)
           /\ ~(c1 + 1 < L1)
           /\ c2' = 0 /\ c1' = c1 + 1
           /\ offset' = offset - S2 * (L2 - 1)
           /\ last' = -1 /\ innerNone' = TRUE
           /\ UNCHANGED index

ONext == Exhausted \/ First \/ Inner \/ Carry \/ Overrun

(******************************** invariant ********************************)
Rank == c1 * L2 + c2

IndInv ==
    /\ c1 \in Int /\ c2 \in Int /\ offset \in Int /\ index \in Int /\ last \in Int /\ innerNone \in BOOLEAN
    /\ c1 >= 0 /\ c1 < L1 /\ c2 >= 0 /\ c2 < L2
    /\ offset = c1 * S1 + c2 * S2
    /\ index >= 0 /\ index <= L1 * L2
    /\ (index = 0 => (c1 = 0 /\ c2 = 0))
    /\ (index > 0 => index = Rank + 1)
    /\ innerNone = FALSE
    \* what the last call returned: the element at the current coordinates, or None exactly when everything was yielded
    /\ last \in {-2, -1} \/ last = offset
    /\ (last = -2) <=> (index = 0)
    /\ (last = -1) => index = L1 * L2
=============================================================================
