------------------------------ MODULE BgzfPool ------------------------------
(***************************************************************************)
(* C12, the part that is about schedules: BGZF input is decoded by a pool  *)
(* of worker threads.  A reader thread cuts the stream into blocks and     *)
(* hands them out in file order; workers inflate concurrently and finish   *)
(* in ANY order; the consumer must nevertheless see the decoded data in    *)
(* file order, each block once, empty blocks contributing nothing.         *)
(*                                                                         *)
(* The pool itself lives in a third-party crate (noodles-bgzf); this       *)
(* module states the protocol its users rely on and TLC explores every     *)
(* interleaving for small block counts and pool sizes.  On the real code   *)
(* schedules are sampled (threads x layouts x repeats), not enumerated.    *)
(***************************************************************************)
EXTENDS Integers, Sequences, FiniteSets, TLC

CONSTANTS NBlocks, Workers, EmptyBlocks, AB_DeliverAsCompleted

VARIABLES nextRead, inflight, decoded, delivered, out
vars == <<nextRead, inflight, decoded, delivered, out>>

Payload(b) == IF b \in EmptyBlocks THEN <<>> ELSE <<b>>     \* what block b inflates to

Init == nextRead = 1 /\ inflight = {} /\ decoded = {} /\ delivered = 0 /\ out = <<>>

(* the reader thread hands the next block to a free worker *)
Dispatch == /\ nextRead <= NBlocks
            /\ Cardinality(inflight) < Workers
            /\ inflight' = inflight \cup {nextRead}
            /\ nextRead' = nextRead + 1
            /\ UNCHANGED <<decoded, delivered, out>>

(* some worker finishes: any in-flight block, in any order *)
Finish(b) == /\ b \in inflight
             /\ inflight' = inflight \ {b}
             /\ decoded' = decoded \cup {b}
             /\ UNCHANGED <<nextRead, delivered, out>>

(* the consumer takes the next block in FILE order, waiting for it if necessary *)
Deliver ==
    IF AB_DeliverAsCompleted
    THEN \E b \in decoded : /\ decoded' = decoded \ {b}
                            /\ delivered' = delivered + 1
                            /\ out' = out \o Payload(b)
                            /\ UNCHANGED <<nextRead, inflight>>
    ELSE /\ (delivered + 1) \in decoded
         /\ decoded' = decoded \ {delivered + 1}
         /\ delivered' = delivered + 1
         /\ out' = out \o Payload(delivered + 1)
         /\ UNCHANGED <<nextRead, inflight>>

Next == Dispatch \/ (\E b \in 1..NBlocks : Finish(b)) \/ Deliver
Spec == Init /\ [][Next]_vars /\ WF_vars(Next)

Expected == LET f[k \in 0..NBlocks] == IF k = 0 THEN <<>> ELSE f[k - 1] \o Payload(k) IN f
InOrder == out = Expected[delivered]
NoLossNoDup == Cardinality(inflight) + Cardinality(decoded) + delivered = nextRead - 1
Bounded == Cardinality(inflight) <= Workers
Completes == <>(delivered = NBlocks /\ out = Expected[NBlocks])
=============================================================================
