-------------------------------- MODULE Fold --------------------------------
(***************************************************************************)
(* C05 as a state machine: starting from the identity spectrum of a shape, *)
(* apply `fold' (with a symbolic fill value) and `mirror' (swap reference  *)
(* and alternate allele) in any order, up to MaxOps operations.            *)
(*                                                                         *)
(* Checked in every reachable state:                                       *)
(*   - the declarative fold (index sums, mirror INDEX) and the fold as     *)
(*     coded (flat position i paired with N-1-i, mid = T div 2, diagonal   *)
(*     iff T even) are the same operator on the current spectrum;          *)
(*   - reading the fill as 0, total mass is what the behaviour started     *)
(*     with (mass preservation along every path);                          *)
(*   - a state produced by fold is a fixed point of fold (fill 0);         *)
(*   - fold(mirror(x)) = fold(x);                                          *)
(*   - after fold, exactly the cells with index sum above T/2 hold fill.   *)
(***************************************************************************)
EXTENDS SpectrumOps, Json

CONSTANTS
    ShapeSet,
    MaxOps,
    OffBy           \* 0 = the algorithm; 1 = sabotage (partner position off by one)

VARIABLES shape0, sp, hist
vars == <<shape0, sp, hist>>

Init == /\ shape0 \in ShapeSet
        /\ sp = Identity(shape0)
        /\ hist = <<>>

DoFold == /\ Len(hist) < MaxOps
          /\ sp' = FoldAsCoded(sp, OffBy)
          /\ hist' = Append(hist, "fold")
          /\ UNCHANGED shape0

DoMirror == /\ Len(hist) < MaxOps
            /\ sp' = MirrorOp(sp)
            /\ hist' = Append(hist, "mirror")
            /\ UNCHANGED shape0

Next == DoFold \/ DoMirror
Spec == Init /\ [][Next]_vars

N0 == Elements(shape0)

DeclEqualsAsCoded == FoldDecl(sp) = FoldAsCoded(sp, OffBy)

MirrorIsFlatReverse ==
    hist = <<>> =>
        \A k \in IndexSpace(shape0) : Flat(shape0, Mirror(shape0, k)) = N0 - 1 - Flat(shape0, k)

MassWithFillZero == MassPreserved(FillZero(sp), N0)

Idempotent ==
    (hist # <<>> /\ hist[Len(hist)] = "fold") => FillZero(FoldDecl(FillZero(sp))) = FillZero(sp)

PolaritySymmetric == FoldDecl(MirrorOp(sp)) = FoldDecl(sp)

LowerIsFill ==
    (hist # <<>> /\ hist[Len(hist)] = "fold") =>
        \A q \in 1..N0 :
            (2 * IndexSumFlat(shape0, q - 1) > MaxTotal(shape0)) <=> (sp.cells[q] = LFUnit(FillId))

Emit == hist # <<>> =>
    PrintT("REPLAY " \o ToJson([family |-> "fold", shape |-> shape0, hist |-> hist, result |-> SpJson(sp)]))
=============================================================================
