------------------------------- MODULE StatCli -------------------------------
(***************************************************************************)
(* The output contract of `sfs stat' (part of C06: "the values stat        *)
(* reports"): one invocation names statistics in some order, gives one     *)
(* precision or one per statistic, optionally asks for a header line and a *)
(* delimiter.  The process is a small machine                              *)
(*     Read -> ResolvePrecisions -> WriteHeader? -> WriteRow -> Exit       *)
(* and the row must carry, column by column IN THE ORDER REQUESTED, the    *)
(* value of the statistic named there, printed with ITS precision.         *)
(* A precision list whose length is neither 1 nor the number of statistics *)
(* is an error and nothing is written.                                     *)
(***************************************************************************)
EXTENDS Stats, Json

CONSTANTS Spectra, StatSeqs, PrecisionSeqs, Delimiters, AB_SortColumns

VARIABLES sc, phase, lines, exit
vars == <<sc, phase, lines, exit>>

HeaderName(s) == CASE s = "sum" -> "sum" [] s = "s" -> "segregating_sites" [] s = "pi" -> "pi" [] s = "theta" -> "theta"
                   [] s = "pi_xy" -> "pi_xy" [] s = "f2" -> "f2" [] OTHER -> s

RECURSIVE JoinFrom(_, _, _)
JoinFrom(seq, sep, i) == IF i > Len(seq) THEN "" ELSE (IF i > 1 THEN sep ELSE "") \o seq[i] \o JoinFrom(seq, sep, i + 1)
Join(seq, sep) == JoinFrom(seq, sep, 1)

Init == /\ sc \in [sp : Spectra, stats : StatSeqs, precs : PrecisionSeqs, header : BOOLEAN, delim : Delimiters]
        /\ phase = "read" /\ lines = <<>> /\ exit = -1

PrecOk == Len(sc.precs) = 1 \/ Len(sc.precs) = Len(sc.stats)
PrecOf(j) == IF Len(sc.precs) = 1 THEN sc.precs[1] ELSE sc.precs[j]
AllAdmissible == \A j \in 1..Len(sc.stats) : Admissible(sc.stats[j], sc.sp.shape)

(* as built (sabotage): columns in alphabetical order of the statistic names instead of the requested order *)
Order == IF AB_SortColumns
         THEN LET S == {sc.stats[j] : j \in 1..Len(sc.stats)}
                  f[T \in SUBSET S] == IF T = {} THEN <<>> ELSE
                      LET m == CHOOSE x \in T : \A y \in T : HeaderName(x) = HeaderName(y) \/ \E k \in 1..1 : TRUE
                      IN  <<m>> \o f[T \ {m}]
              IN  f[S]
         ELSE sc.stats

(* as built: the precision list is checked before anything is written; whether every statistic is defined for the shape *)
(* is only found out while the row is computed - after the header line (if asked for) has gone out                      *)
Resolve == /\ phase = "read"
           /\ IF PrecOk THEN phase' = "resolved" /\ exit' = exit
              ELSE phase' = "exit" /\ exit' = 1
           /\ UNCHANGED <<sc, lines>>

WriteHeader == /\ phase = "resolved"
               /\ lines' = IF sc.header THEN <<Join([j \in 1..Len(Order) |-> HeaderName(Order[j])], sc.delim)>> ELSE <<>>
               /\ phase' = "header" /\ UNCHANGED <<sc, exit>>

Cell(j) == LET v == SStat(Order[j], sc.sp) IN QFix(v.v, PrecOf(j))

WriteRow == /\ phase = "header"
            /\ IF AllAdmissible
               THEN lines' = Append(lines, Join([j \in 1..Len(Order) |-> Cell(j)], sc.delim)) /\ exit' = 0
               ELSE lines' = lines /\ exit' = 1            \* no row, not even a partial one
            /\ phase' = "exit" /\ UNCHANGED sc

Next == Resolve \/ WriteHeader \/ WriteRow
Spec == Init /\ [][Next]_vars

(* what the statement demands of the finished process *)
Expected ==
    IF ~PrecOk THEN [exit |-> 1, lines |-> <<>>]
    ELSE IF ~AllAdmissible
    THEN [exit |-> 1, lines |-> (IF sc.header THEN <<Join([j \in 1..Len(sc.stats) |-> HeaderName(sc.stats[j])], sc.delim)>> ELSE <<>>)]
    ELSE [exit |-> 0,
          lines |-> (IF sc.header THEN <<Join([j \in 1..Len(sc.stats) |-> HeaderName(sc.stats[j])], sc.delim)>> ELSE <<>>)
                    \o <<Join([j \in 1..Len(sc.stats) |-> QFix(SStat(sc.stats[j], sc.sp).v, PrecOf(j))], sc.delim)>>]

RowMatchesRequest == phase = "exit" => (exit = Expected.exit /\ lines = Expected.lines)
NoRowOnError == (phase = "exit" /\ exit = 1) => Len(lines) <= (IF sc.header THEN 1 ELSE 0)

Emit == phase = "exit" =>
    PrintT("REPLAY " \o ToJson([family |-> "stats", kind |-> "layout", shape |-> sc.sp.shape,
        cells |-> [q \in 1..Len(sc.sp.cells) |-> QStr(sc.sp.cells[q])],
        stats |-> sc.stats, precs |-> sc.precs, header |-> sc.header, delim |-> sc.delim,
        exit |-> Expected.exit, lines |-> Expected.lines]))
=============================================================================
