------------------------------ MODULE Shapes ------------------------------
(***************************************************************************)
(* Shapes, row-major strides, flat <-> multi-index maps, index sums, axis  *)
(* removal.  Shared by ArrayApi, SpectrumOps, Stats, NpyFile, TextFile.    *)
(*                                                                         *)
(* A shape is a non-empty sequence of naturals.  An index is a sequence of *)
(* the same length.  Positions inside sequences are 1-based (TLA+), the    *)
(* values stored in an index (coordinates) and flat positions are 0-based, *)
(* exactly as in the implementation.  Axis *numbers* are 1-based here and  *)
(* are emitted 0-based at the JSON boundary (Ax0).                         *)
(***************************************************************************)
EXTENDS Integers, Sequences, FiniteSets

Dims(sh) == Len(sh)

RECURSIVE ProdFrom(_, _)
ProdFrom(sh, i) == IF i > Len(sh) THEN 1 ELSE sh[i] * ProdFrom(sh, i + 1)

Elements(sh) == ProdFrom(sh, 1)

(* Row-major strides: stride of axis i is the product of the later lengths *)
Strides(sh) == [i \in 1..Len(sh) |-> ProdFrom(sh, i + 1)]

RECURSIVE DotFrom(_, _, _)
DotFrom(a, b, i) == IF i > Len(a) THEN 0 ELSE a[i] * b[i] + DotFrom(a, b, i + 1)

InBounds(sh, idx) == /\ Len(idx) = Len(sh)
                     /\ \A i \in 1..Len(sh) : idx[i] >= 0 /\ idx[i] < sh[i]

Flat(sh, idx) == DotFrom(Strides(sh), idx, 1)

(* Declarative inverse: the unique in-bounds index with that flat position *)
Unflat(sh, p) ==
    LET st == Strides(sh) IN [i \in 1..Len(sh) |-> (p \div st[i]) % sh[i]]

RECURSIVE MaxFrom(_, _)
MaxFrom(s, i) == IF i > Len(s) THEN 0
                 ELSE LET r == MaxFrom(s, i + 1) IN IF s[i] > r THEN s[i] ELSE r
SeqMax(s) == MaxFrom(s, 1)

(* All in-bounds indices, defined without reference to Flat/Unflat *)
IndexSpace(sh) == {idx \in [1..Len(sh) -> 0..(SeqMax(sh) - 1)] : InBounds(sh, idx)}

FlatSpace(sh) == 0..(Elements(sh) - 1)

RECURSIVE SumFrom(_, _)
SumFrom(s, i) == IF i > Len(s) THEN 0 ELSE s[i] + SumFrom(s, i + 1)
SeqSum(s) == SumFrom(s, 1)

IndexSum(idx) == SeqSum(idx)
IndexSumFlat(sh, p) == IndexSum(Unflat(sh, p))

(* Total of the per-axis maxima: T in the folding statement *)
MaxTotal(sh) == SeqSum(sh) - Len(sh)

RemoveAt(s, a) == SubSeq(s, 1, a - 1) \o SubSeq(s, a + 1, Len(s))
InsertAt(s, a, v) == SubSeq(s, 1, a - 1) \o <<v>> \o SubSeq(s, a, Len(s))

(* Mirror index: every k_j replaced by n_j - k_j where n_j = sh[j]-1 *)
Mirror(sh, idx) == [i \in 1..Len(sh) |-> sh[i] - 1 - idx[i]]

(* All shapes with 1..maxDims axes and lengths drawn from Lens *)
AllShapes(maxDims, Lens) == UNION {[1..d -> Lens] : d \in 1..maxDims}

(* 0-based axis number for the JSON boundary *)
Ax0(a) == a - 1

(* The sorted sequence of a finite set of integers *)
RECURSIVE SortedSeq(_)
SortedSeq(S) == IF S = {} THEN <<>>
                ELSE LET m == CHOOSE x \in S : \A y \in S : x <= y
                     IN  <<m>> \o SortedSeq(S \ {m})
=============================================================================
