---------------------------- MODULE SpectrumOps ----------------------------
(***************************************************************************)
(* The operators on spectra: marginalize, project, fold, mirror, mask,     *)
(* normalize (C03 C04 C05 C13), each written twice:                        *)
(*   - declaratively, straight from the property statement, and            *)
(*   - as coded (axis renumbering, flat-position reversal, odometers).     *)
(* TLC checks the two against each other and checks the algebraic laws.    *)
(*                                                                         *)
(* Values.  TLC never sees a float.  A spectrum in the specification is    *)
(* SYMBOLIC: cell q holds a linear form over the cells of the spectrum the *)
(* behaviour started from (ids 1..N0) and the fill value (id 0), with      *)
(* exact rational coefficients (module Q).  A linear form is a function    *)
(* from the ids with non-zero coefficient to that coefficient, so equal    *)
(* forms are equal TLA+ values and `the same spectrum' is `='.  Because    *)
(* every operator except normalize is linear, a symbolic state IS the      *)
(* operator matrix applied so far; the harness evaluates it on basis       *)
(* vectors, random vectors and special values.  Normalize divides by the   *)
(* total; a state carries the divisor as one more linear form (`norm').    *)
(***************************************************************************)
EXTENDS Shapes, Q, TLC, FiniteSets

FillId == 0

(****************************** linear forms ******************************)
LFZero == [x \in {} |-> QZero]
LFUnit(p) == [x \in {p} |-> QOne]
LFCoef(f, x) == IF x \in DOMAIN f THEN f[x] ELSE QZero
LFClean(f) == [x \in {y \in DOMAIN f : ~QIsZero(f[y])} |-> f[x]]
LFAdd(f, g) == LFClean([x \in DOMAIN f \cup DOMAIN g |-> QAdd(LFCoef(f, x), LFCoef(g, x))])
LFScale(c, f) == IF QIsZero(c) THEN LFZero ELSE [x \in DOMAIN f |-> QMul(c, f[x])]

RECURSIVE LFSumSeq(_)
LFSumSeq(s) == IF s = <<>> THEN LFZero ELSE LFAdd(Head(s), LFSumSeq(Tail(s)))

(* Sum of a family of forms indexed by a finite set of integers *)
LFSumSet(S, F(_)) == LET ss == SortedSeq(S) IN LFSumSeq([j \in 1..Len(ss) |-> F(ss[j])])

(* Sum of coefficients over the original cells (the fill id excluded): mass functional *)
LFOnes(n0) == [x \in 1..n0 |-> QOne]

(**************************** symbolic spectra ****************************)
(* [shape, cells] with cells[q] the linear form of flat position q-1 *)
Identity(sh) == [shape |-> sh, cells |-> [q \in 1..Elements(sh) |-> LFUnit(q)]]

Cell(sp, idx) == sp.cells[Flat(sp.shape, idx) + 1]

Total(sp) == LFSumSeq(sp.cells)        \* linear form of the total mass

(******************************* marginalize *******************************)
(* Declarative: the entry at idx (over the remaining axes, original order) is the sum *)
(* over all indices of the removed axes.  `removed' is a set of axis positions.       *)
Remaining(sh, removed) == SelectSeq([i \in 1..Len(sh) |-> i], LAMBDA a : a \notin removed)

KeepShape(sh, removed) == [j \in 1..Len(Remaining(sh, removed)) |-> sh[Remaining(sh, removed)[j]]]

(* does the full index `full' restrict to `idx' on the remaining axes? *)
Restricts(sh, removed, full, idx) ==
    LET rem == Remaining(sh, removed) IN \A j \in 1..Len(rem) : full[rem[j]] = idx[j]

MarginalizeDecl(sp, removed) ==
    LET osh == KeepShape(sp.shape, removed)
    IN  [shape |-> osh,
         cells |-> [q \in 1..Elements(osh) |->
                      LET idx == Unflat(osh, q - 1)
                          src == {p \in 1..Elements(sp.shape) :
                                     Restricts(sp.shape, removed, Unflat(sp.shape, p - 1), idx)}
                      IN  LFSumSet(src, LAMBDA p : sp.cells[p])]]

(* One step, as the code does it: sum the axis views along one axis *)
RemoveAxisOp(sp, a) ==
    LET osh == RemoveAt(sp.shape, a)
    IN  [shape |-> osh,
         cells |-> [q \in 1..Elements(osh) |->
                      LFSumSeq([i \in 1..sp.shape[a] |->
                          Cell(sp, InsertAt(Unflat(osh, q - 1), a, i - 1))])]]

(* The public operation as coded: validate, sort, shift each axis down by the number   *)
(* already removed.  `axes' is a sequence of 0-based axis numbers as the caller wrote  *)
(* them.  Result: [ok |-> TRUE, sp |-> ...] or [ok |-> FALSE, why |-> set of reasons].   *)
HasDuplicate(axes) == \E i, j \in 1..Len(axes) : i < j /\ axes[i] = axes[j]
MargReasons(sh, axes) ==
    (IF HasDuplicate(axes) THEN {"duplicate"} ELSE {})
    \cup (IF \E i \in 1..Len(axes) : axes[i] >= Len(sh) THEN {"out_of_bounds"} ELSE {})
    \cup (IF Len(axes) >= Len(sh) THEN {"too_many"} ELSE {})

RECURSIVE MargSorted(_, _, _, _)
MargSorted(sp, sorted, k, shift) ==       \* remove sorted[k..] one at a time
    IF k > Len(sorted) THEN sp
    ELSE MargSorted(RemoveAxisOp(sp, sorted[k] + 1 - (IF shift THEN k - 1 ELSE 0)), sorted, k + 1, shift)

MarginalizeAsCoded(sp, axes, shift) ==
    IF MargReasons(sp.shape, axes) # {} THEN [ok |-> FALSE, why |-> MargReasons(sp.shape, axes)]
    ELSE [ok |-> TRUE,
          sp |-> MargSorted(sp, SortedSeq({axes[i] : i \in 1..Len(axes)}), 1, shift)]

(********************************* project *********************************)
(* Closed form: entry k' of the projection to shape `to' is                            *)
(*   sum_k x[k] * prod_j Hypergeom(k'_j; n_j, k_j, m_j),  n_j = from_j-1, m_j = to_j-1  *)
HypProd(from, to, k, kk) ==
    QProdSeq([j \in 1..Len(from) |-> QHyp(from[j] - 1, k[j], to[j] - 1, kk[j])])

ProjectReasons(from, to) ==
    IF \E j \in 1..Len(to) : to[j] = 0 THEN {"zero"}
    ELSE IF \E j \in 1..Len(from) : from[j] = 0 THEN {"zero"}
    ELSE IF Len(from) # Len(to) THEN {"dimensions"}
    ELSE IF \E j \in 1..Len(from) : to[j] > from[j] THEN {"too_large"}
    ELSE {}

ProjectDecl(sp, to) ==
    [shape |-> to,
     cells |-> [q \in 1..Elements(to) |->
                  LET kk == Unflat(to, q - 1)
                  IN  LFSumSet(1..Elements(sp.shape),
                               LAMBDA p : LFScale(HypProd(sp.shape, to, Unflat(sp.shape, p - 1), kk),
                                                  sp.cells[p]))]]

(* One chromosome less on axis a (the elementary down-sampling step):                  *)
(*   x'[k] = x[k] (n-k_a)/n + x[k+e_a] (k_a+1)/n,   n = shape[a]-1                      *)
Down1Op(sp, a) ==
    LET n == sp.shape[a] - 1
        osh == [sp.shape EXCEPT ![a] = @ - 1]
    IN  [shape |-> osh,
         cells |-> [q \in 1..Elements(osh) |->
                      LET k == Unflat(osh, q - 1)
                          up == [k EXCEPT ![a] = @ + 1]
                      IN  LFAdd(LFScale(QMk(n - k[a], n), Cell(sp, k)),
                                LFScale(QMk(k[a] + 1, n), Cell(sp, up)))]]

(*********************************** fold ***********************************)
(* Declarative (statement): with s the index sum and T the maximal total,               *)
(*   2s < T : self + mirror;   2s = T : average of self and mirror;   2s > T : fill      *)
FoldDecl(sp) ==
    LET sh == sp.shape
        T == MaxTotal(sh)
    IN  [shape |-> sh,
         cells |-> [q \in 1..Elements(sh) |->
                      LET k == Unflat(sh, q - 1)
                          s == IndexSum(k)
                          self == sp.cells[q]
                          mirr == Cell(sp, Mirror(sh, k))
                      IN  IF 2 * s < T THEN LFAdd(self, mirr)
                          ELSE IF 2 * s = T THEN LFScale(QMk(1, 2), LFAdd(self, mirr))
                          ELSE LFUnit(FillId)]]

(* As coded: flat position i pairs with N-1-i; mid = T div 2; diagonal iff T even.      *)
(* OffBy is 0 for the real algorithm; the sabotage configuration sets it to 1.          *)
FoldAsCoded(sp, offBy) ==
    LET sh == sp.shape
        N == Elements(sh)
        T == MaxTotal(sh)
        mid == T \div 2
        diag == (T % 2 = 0)
    IN  [shape |-> sh,
         cells |-> [q \in 1..N |->
                      LET i == q - 1
                          rev == (N - 1 - i + offBy) % N
                          c == IndexSumFlat(sh, i)
                          self == sp.cells[q]
                          mirr == sp.cells[rev + 1]
                      IN  IF c < mid \/ (c = mid /\ ~diag) THEN LFAdd(self, mirr)
                          ELSE IF c = mid THEN LFAdd(LFScale(QMk(1, 2), self), LFScale(QMk(1, 2), mirr))
                          ELSE LFUnit(FillId)]]

(* Swapping reference and alternate allele: entry k moves to n-k on every axis *)
MirrorOp(sp) ==
    [shape |-> sp.shape,
     cells |-> [q \in 1..Elements(sp.shape) |-> Cell(sp, Mirror(sp.shape, Unflat(sp.shape, q - 1)))]]

(* The fill value read as zero: the linear part over the original cells *)
DropFill(f) == [x \in DOMAIN f \ {FillId} |-> f[x]]
FillZero(sp) == [shape |-> sp.shape, cells |-> [q \in 1..Elements(sp.shape) |-> DropFill(sp.cells[q])]]

(***************************** mask, normalize *****************************)
(* --mask-monomorphic: exactly the all-zero and the all-maximum entries become zero *)
MaskOp(sp) ==
    [shape |-> sp.shape,
     cells |-> [q \in 1..Elements(sp.shape) |->
                  LET k == Unflat(sp.shape, q - 1)
                  IN  IF (\A j \in 1..Len(k) : k[j] = 0) \/ (\A j \in 1..Len(k) : k[j] = sp.shape[j] - 1)
                      THEN LFZero ELSE sp.cells[q]]]

(****************************** laws as predicates ******************************)
MassPreserved(sp, n0) == DropFill(Total(sp)) = LFOnes(n0)
NonNegative(sp) == \A q \in 1..Elements(sp.shape) : \A x \in DOMAIN sp.cells[q] : ~QLt(sp.cells[q][x], QZero)

(****************************** JSON boundary ******************************)
(* cells as objects {"id": "n/d", ...}; ids 1..N0 are 1-based original flat positions, 0 is the fill *)
LFJson(f) == [x \in DOMAIN f |-> QStr(f[x])]
SpJson(sp) == [shape |-> sp.shape, cells |-> [q \in 1..Elements(sp.shape) |-> LFJson(sp.cells[q])]]
=============================================================================
