----------------------------- MODULE StatsCheck -----------------------------
(***************************************************************************)
(* C06 as a state machine: a call set grows one site at a time (AddSite),  *)
(* the spectrum `create' would build grows with it, and in EVERY state     *)
(* every admissible statistic computed from the spectrum (the way the tool *)
(* does) must equal the same quantity computed directly from the           *)
(* genotypes seen so far.  Sites are added in non-decreasing code order,   *)
(* so each multiset of sites is one behaviour.                             *)
(* kind = "estimator": 1-D count spectra of n chromosomes, n up to several *)
(* hundred, against the published formulas (exact harmonic numbers).       *)
(***************************************************************************)
EXTENDS Stats, Json

CONSTANTS PopStructs, MaxSitesFor(_), EstimatorNs, BigShapes, AB_PiDenominator

VARIABLES kind, pops, sites, est
vars == <<kind, pops, sites, est>>

NInd(p) == SeqSum(p)
SiteSet(p) == [1..NInd(p) -> {0, 1, 2}]
RECURSIVE CodeFrom(_, _)
CodeFrom(g, i) == IF i > Len(g) THEN 0 ELSE g[i] + 3 * CodeFrom(g, i + 1)
Code(g) == CodeFrom(g, 1)

EstPatterns == {"neutral", "singletons", "flat", "hump", "excess_high"}
EstCells(n, pat) ==
    [i \in 1..(n + 1) |->
        LET k == i - 1 IN
        QI(CASE pat = "neutral" -> IF k = 0 THEN 1000 ELSE IF k = n THEN 3 ELSE 60 \div k
             [] pat = "singletons" -> IF k = 1 THEN 7 ELSE 0
             [] pat = "flat" -> 2
             [] pat = "hump" -> IF 2 * k >= n - 1 /\ 2 * k <= n + 1 THEN 5 ELSE IF k = 1 THEN 1 ELSE 0
             [] pat = "excess_high" -> IF k = n - 1 THEN 9 ELSE IF k = 1 THEN 2 ELSE IF k = 0 THEN 50 ELSE 0)]

Init ==
    \/ /\ kind = "geno" /\ pops \in PopStructs /\ sites = <<>> /\ est = <<>>
    \/ /\ kind = "estimator" /\ pops = <<>> /\ sites = <<>>
       /\ \E n \in EstimatorNs, pat \in EstPatterns : est = <<n, pat>>
    \/ /\ kind = "spectrum" /\ pops = <<>> /\ sites = <<>>
       /\ \E sh \in BigShapes, seed \in 0..2 : est = <<sh, seed>>

AddSite(g) ==
    /\ kind = "geno"
    /\ Len(sites) < MaxSitesFor(pops)
    /\ IF sites = <<>> THEN TRUE ELSE Code(g) >= Code(sites[Len(sites)])
    /\ sites' = Append(sites, g)
    /\ UNCHANGED <<kind, pops, est>>

Next == \E g \in SiteSet(pops) : AddSite(g)
Spec == Init /\ [][Next]_vars

(* sabotage: pi with denominator n^2/2 instead of n(n-1)/2 *)
SStatX(stat, sp) ==
    IF AB_PiDenominator /\ stat = "pi" /\ Admissible(stat, sp.shape)
    THEN LET n == N1(sp) IN Fin(QSumSeq([i \in 1..(n - 1) |-> QMul(QMk(2 * i * (n - i), n * n), sp.cells[i + 1])]))
    ELSE SStat(stat, sp)

SpectrumMatchesGenotypes ==
    (kind = "geno" /\ sites # <<>>) =>
        LET sp == SpectrumOf(pops, sites) IN
        \A stat \in StatNames : SStatX(stat, sp) = GStat(stat, pops, sites)

EstSpectrum == [shape |-> <<est[1] + 1>>, cells |-> EstCells(est[1], est[2])]

(* multi-population spectra with more chromosomes than the genotype-level enumeration can reach *)
BigSpectrum ==
    LET sh == est[1] seed == est[2] IN
    [shape |-> sh, cells |-> [q \in 1..Elements(sh) |-> QI(((q * 7 + seed * 3) % 5) + (IF q % 3 = seed THEN 2 ELSE 0))]]

(* the estimator identities on count spectra: theta = S/a_n; D numerators vanish exactly when pi = theta etc. *)
EstimatorSane ==
    kind = "estimator" =>
        LET sp == EstSpectrum n == est[1] IN
        /\ STheta(sp) = QDiv(SSeg(sp), A1(n))
        /\ ~QLt(STajimaD(sp).var, QZero)
        /\ n >= 3 => ~QLt(SFuLiD(sp).var, QZero)

StatsJson(sp, names) == [s \in names |-> ValJson(SStat(s, sp))]

Emit ==
    CASE kind = "geno" ->
            sites # <<>> =>
                PrintT("REPLAY " \o ToJson([family |-> "stats", kind |-> "geno", pops |-> pops, sites |-> sites,
                    stats |-> [s \in {x \in StatNames : Admissible(x, GShape(pops))} |-> ValJson(GStat(s, pops, sites))]]))
      [] kind = "spectrum" ->
            PrintT("REPLAY " \o ToJson([family |-> "stats", kind |-> "estimator", n |-> 0, pattern |-> "patterned", shape |-> est[1],
                cells |-> [i \in 1..Elements(est[1]) |-> QStr(BigSpectrum.cells[i])],
                stats |-> StatsJson(BigSpectrum, {x \in StatNames : Admissible(x, est[1])})]))
      [] kind = "estimator" ->
            PrintT("REPLAY " \o ToJson([family |-> "stats", kind |-> "estimator", n |-> est[1], pattern |-> est[2],
                cells |-> [i \in 1..(est[1] + 1) |-> QStr(EstSpectrum.cells[i])],
                stats |-> StatsJson(EstSpectrum, {"sum", "s", "pi", "theta", "d_tajima", "d_fu_li"})]))
=============================================================================
