------------------------------ MODULE SampleMap ------------------------------
(***************************************************************************)
(* Sample list -> population ids -> shape (C09).                           *)
(*                                                                         *)
(* A list is a sequence of entries [s |-> sample name, p |-> label];       *)
(* label Unnamed stands for "no population given".  Population ids are     *)
(* assigned in order of FIRST APPEARANCE of the labels; axis j has length  *)
(* 2 * (number of listed samples with the j-th label) + 1.                 *)
(* "All" (no list given) means every input column, one unnamed population. *)
(***************************************************************************)
EXTENDS Integers, Sequences, FiniteSets

Unnamed == "-"

RECURSIVE LabelsFrom(_, _, _)
LabelsFrom(list, i, acc) ==
    IF i > Len(list) THEN acc
    ELSE LabelsFrom(list, i + 1,
                    IF \E j \in 1..Len(acc) : acc[j] = list[i].p THEN acc ELSE Append(acc, list[i].p))

(* distinct labels in order of first appearance *)
Labels(list) == LabelsFrom(list, 1, <<>>)

PopOfLabel(list, l) == CHOOSE j \in 1..Len(Labels(list)) : Labels(list)[j] = l

Listed(list) == {list[i].s : i \in 1..Len(list)}

NoDuplicateSamples(list) == \A i, j \in 1..Len(list) : i # j => list[i].s # list[j].s

(* population (1-based) of a sample, 0 if not listed; duplicates: the implementation keeps the LAST label *)
PopOf(list, s) ==
    IF s \notin Listed(list) THEN 0
    ELSE LET i == CHOOSE i \in 1..Len(list) : list[i].s = s /\ \A j \in (i + 1)..Len(list) : list[j].s # s
         IN  PopOfLabel(list, list[i].p)

NPops(list) == Len(Labels(list))

PopSize(list, j) == Cardinality({s \in Listed(list) : PopOf(list, s) = j})

ShapeOf(list) == [j \in 1..NPops(list) |-> 2 * PopSize(list, j) + 1]

(* marker for "no list given": every input column, one unnamed population *)
AllMarker == <<[s |-> "*", p |-> "*"]>>

AllList(columns) == [i \in 1..Len(columns) |-> [s |-> columns[i], p |-> Unnamed]]

(* the two concrete syntaxes *)
RECURSIVE ArgFrom(_, _)
ArgFrom(list, i) ==        \* --samples a=A,b,c=B
    IF i > Len(list) THEN ""
    ELSE (IF i > 1 THEN "," ELSE "") \o list[i].s
         \o (IF list[i].p = Unnamed THEN "" ELSE "=" \o list[i].p) \o ArgFrom(list, i + 1)
SamplesArg(list) == ArgFrom(list, 1)

RECURSIVE FileFrom(_, _)
FileFrom(list, i) ==       \* --samples-file: one line per sample, tab, label
    IF i > Len(list) THEN ""
    ELSE list[i].s \o (IF list[i].p = Unnamed THEN "" ELSE "\t" \o list[i].p) \o "\n" \o FileFrom(list, i + 1)
SamplesFile(list) == FileFrom(list, 1)

(* list permutations that keep the first-appearance order of labels *)
Permute(list, pi) == [i \in 1..Len(list) |-> list[pi[i]]]
Perms(n) == {pi \in [1..n -> 1..n] : \A i, j \in 1..n : i # j => pi[i] # pi[j]}
=============================================================================
