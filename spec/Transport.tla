------------------------------ MODULE Transport ------------------------------
(***************************************************************************)
(* C18: byte streams delivered in chunks, short writes, and I/O failures.  *)
(*                                                                         *)
(* The environment owns the SCHEDULE: how many bytes each underlying read  *)
(* returns (first chunk of any length, later chunks of a fixed small size  *)
(* or "the rest"), how many bytes each underlying write accepts, and the   *)
(* byte offset at which the stream fails (if at all).  The consumer is the *)
(* code's I/O logic, step by step on top of a BufRead-like buffer:         *)
(*   mode "npy"    read_exact(magic) read_exact(version) read_exact(len)   *)
(*                 read_exact(dict), then `while !fill_buf().is_empty()    *)
(*                 { read_exact(item) }` - Array::read_npy                 *)
(*   mode "create" detect compression (gzip magic), detect format (BCF     *)
(*                 magic, raw or behind the first BGZF block), then decode *)
(*                 the whole stream - genotype::reader::Builder            *)
(*   mode "write"  a sequence of write_all(segment) calls; via "lib" straight *)
(*                 into a scheduled writer, via "stdout" / "path" inside   *)
(*                 the real process, whose sink (a regular file under a    *)
(*                 size limit) fails at a chosen byte offset and may sit   *)
(*                 behind a buffer layer of file.buf bytes that has to be  *)
(*                 flushed before the process may report success           *)
(* The outcome of a behaviour must be a function of the bytes and of the   *)
(* failure offset only - never of the schedule - and a failure anywhere    *)
(* must surface as an error.                                               *)
(***************************************************************************)
EXTENDS Integers, Sequences, TLC, Json

CONSTANTS
    Files,               \* set of files: [name, mode, len, segs, item, count, gz, bcf, need, valid, via, buf], lengths of REAL files
    Schedules(_),        \* file -> set of <<first chunk, later-chunk policy (0 = the rest), failure offset (-1 = none)>>
    AB_ShortReadIsEof,   \* sabotage: read_exact done with a single read
    AB_DetectFromFirstChunk, \* as built: detection looks only at what the first read returned
    AB_WriteNotAll,      \* sabotage: write() instead of write_all(): the unaccepted tail is dropped
    AB_NoFinalFlush      \* sabotage (seeded change C18d): a buffer layer in front of the sink that is only flushed on drop,
                         \* where errors are discarded

VARIABLES
    file, first, later, failAt,      \* the scenario
    delivered,    \* bytes the underlying stream has handed over / accepted so far
    buffered,     \* bytes sitting in the BufRead buffer, not yet consumed
    consumed,     \* bytes consumed by the consumer
    pc,           \* consumer program counter
    items,        \* npy: complete items read so far
    detected,     \* create: [gz |-> .., fmt |-> ..] as detected
    result,       \* "running" | [ok |-> TRUE, ...] | [st |-> "err", why |-> ...]
    nreads        \* number of underlying calls (for the replay)

vars == <<file, first, later, failAt, delivered, buffered, consumed, pc, items, detected, result, nreads>>

Min(a, b) == IF a < b THEN a ELSE b
Total == file.len
Running == result.st = "running"

(* size of the next underlying read when the buffer is empty; 0 = end of stream *)
NextChunk ==
    LET remaining == Total - delivered
        want == IF nreads = 0 THEN first ELSE IF later = 0 THEN remaining ELSE later
        upto == IF failAt >= 0 /\ failAt > delivered THEN failAt - delivered ELSE remaining   \* never cross the failure offset
    IN  Min(Min(want, remaining), upto)

FailsNow == failAt >= 0 /\ delivered >= failAt      \* the next underlying call fails

(* fill the buffer if it is empty: one underlying read (as BufRead::fill_buf does) *)
Fill ==
    /\ Running /\ buffered = 0 /\ file.mode # "write"
    /\ pc \in {"need", "probe"}
    /\ IF FailsNow
       THEN /\ result' = [st |-> "err", why |-> "io"]
            /\ UNCHANGED <<delivered, buffered, pc>>
       ELSE LET n == NextChunk IN
            /\ delivered' = delivered + n
            /\ buffered' = n
            /\ pc' = IF n = 0 THEN (IF pc = "need" THEN "eof_in_exact" ELSE "eof_at_probe") ELSE (IF pc = "need" THEN "take" ELSE "probed")
            /\ UNCHANGED result
    /\ nreads' = nreads + 1
    /\ UNCHANGED <<file, first, later, failAt, consumed, items, detected>>

(************************* consumer: npy reader *************************)
(* segs: lengths requested with read_exact before the item loop; want: bytes still needed by the current read_exact *)
HeaderLen == file.segs[1] + file.segs[2] + file.segs[3] + file.segs[4]

\* the request in progress: how many more bytes the current read_exact needs
Want ==
    IF consumed < HeaderLen
    THEN LET b1 == file.segs[1] b2 == b1 + file.segs[2] b3 == b2 + file.segs[3]
         IN  IF consumed < b1 THEN b1 - consumed ELSE IF consumed < b2 THEN b2 - consumed
             ELSE IF consumed < b3 THEN b3 - consumed ELSE HeaderLen - consumed
    ELSE file.item - ((consumed - HeaderLen) % file.item)

NpyTake ==      \* copy from the buffer into the current read_exact
    /\ Running /\ file.mode = "npy" /\ pc = "take" /\ buffered > 0
    /\ LET n == Min(buffered, Want) IN
       /\ consumed' = consumed + n
       /\ buffered' = buffered - n
       /\ LET c == consumed + n IN
          IF AB_ShortReadIsEof /\ n < Want
          THEN result' = [st |-> "err", why |-> "unexpected_eof"] /\ pc' = pc /\ items' = items
          ELSE /\ result' = result
               /\ items' = IF c > HeaderLen /\ (c - HeaderLen) % file.item = 0 THEN items + 1 ELSE items
               /\ pc' = IF c < HeaderLen
                        THEN (IF buffered - n > 0 THEN "take" ELSE "need")
                        ELSE IF (c - HeaderLen) % file.item = 0
                        THEN (IF buffered - n > 0 THEN "take" ELSE "probe")      \* item loop: fill_buf().is_empty()?
                        ELSE (IF buffered - n > 0 THEN "take" ELSE "need")
    /\ UNCHANGED <<file, first, later, failAt, delivered, detected, nreads>>

NpyProbed == /\ Running /\ file.mode = "npy" /\ pc = "probed" /\ pc' = "take"
             /\ UNCHANGED <<file, first, later, failAt, delivered, buffered, consumed, items, detected, result, nreads>>

NpyEof ==
    /\ Running /\ file.mode = "npy"
    /\ \/ pc = "eof_in_exact" /\ result' = [st |-> "err", why |-> "unexpected_eof"]
       \/ pc = "eof_at_probe" /\ result' = (IF items = file.count THEN [st |-> "ok", items |-> items]
                                             ELSE [st |-> "err", why |-> "count"])
    /\ UNCHANGED <<file, first, later, failAt, delivered, buffered, consumed, pc, items, detected, nreads>>

NpyStart == /\ Running /\ file.mode = "npy" /\ pc = "start" /\ pc' = "need"
            /\ UNCHANGED <<file, first, later, failAt, delivered, buffered, consumed, items, detected, result, nreads>>

(************************ consumer: create input ************************)
(* file.gz: the stream is BGZF; file.bcf: the (decompressed) stream starts with the BCF magic;          *)
(* file.need: bytes of the compressed stream needed to inflate the first three bytes                     *)
\* how many bytes detection may look at: everything (reference) or the first chunk only (as built)
Visible == IF AB_DetectFromFirstChunk THEN buffered ELSE Total

CreateDetect ==
    /\ Running /\ file.mode = "create" /\ pc = "probed" /\ ~detected.known
    /\ LET gz == file.gz /\ Visible >= 2
           fmtKnown == IF gz THEN Visible >= file.need ELSE Visible >= 3
       IN  IF gz /\ ~fmtKnown
           THEN /\ result' = [st |-> "err", why |-> "detect_eof"]     \* inflating three bytes hit the end of the chunk
                /\ detected' = [known |-> TRUE, gz |-> gz, bcf |-> FALSE]
                /\ pc' = pc
           ELSE /\ detected' = [known |-> TRUE, gz |-> gz, bcf |-> file.bcf /\ fmtKnown]
                /\ pc' = "decode"
                /\ result' = result
    /\ UNCHANGED <<file, first, later, failAt, delivered, buffered, consumed, items, nreads>>

(* decoding drains the stream; a mis-detected container cannot be parsed *)
CreateDecode ==
    /\ Running /\ file.mode = "create" /\ pc = "decode"
    /\ IF detected.gz # file.gz \/ detected.bcf # file.bcf
       THEN result' = [st |-> "err", why |-> "misdetected"] /\ UNCHANGED <<buffered, consumed, pc>>
       ELSE IF buffered > 0
       THEN consumed' = consumed + buffered /\ buffered' = 0 /\ pc' = "drain" /\ result' = result
       ELSE pc' = "drain" /\ UNCHANGED <<buffered, consumed, result>>
    /\ UNCHANGED <<file, first, later, failAt, delivered, items, detected, nreads>>

CreateDrain ==
    /\ Running /\ file.mode = "create" /\ pc = "drain" /\ buffered = 0
    /\ IF FailsNow THEN result' = [st |-> "err", why |-> "io"] /\ UNCHANGED <<delivered, consumed, pc>>
       ELSE LET n == NextChunk IN
            IF n = 0 THEN result' = (IF file.valid THEN [st |-> "ok", items |-> file.count]
                                               ELSE [st |-> "err", why |-> "truncated_container"])   \* the stream ends inside a block / record
                          /\ UNCHANGED <<delivered, consumed, pc>>
            ELSE delivered' = delivered + n /\ consumed' = consumed + n /\ pc' = pc /\ result' = result
    /\ nreads' = nreads + 1
    /\ UNCHANGED <<file, first, later, failAt, buffered, items, detected>>

CreateStart == /\ Running /\ file.mode = "create" /\ pc = "start" /\ pc' = "probe"
               /\ UNCHANGED <<file, first, later, failAt, delivered, buffered, consumed, items, detected, result, nreads>>
CreateEmpty == /\ Running /\ file.mode = "create" /\ pc = "eof_at_probe"
               /\ result' = [st |-> "err", why |-> "empty"]
               /\ UNCHANGED <<file, first, later, failAt, delivered, buffered, consumed, pc, items, detected, nreads>>

(****************************** writer ******************************)
(* write_all(segment) for each segment in turn; each underlying write accepts at most a chunk *)
SegEnd(k) == LET f[j \in 0..Len(file.segs)] == IF j = 0 THEN 0 ELSE f[j - 1] + file.segs[j] IN f[k]
CurSeg == CHOOSE k \in 1..Len(file.segs) : SegEnd(k - 1) <= consumed /\ consumed < SegEnd(k)

WriteStep ==
    /\ Running /\ file.mode = "write" /\ file.buf = 0 /\ consumed < Total
    /\ IF FailsNow THEN result' = [st |-> "err", why |-> "io"] /\ UNCHANGED <<delivered, consumed>>
       ELSE LET rest == SegEnd(CurSeg) - consumed
                cap == IF nreads = 0 THEN first ELSE IF later = 0 THEN rest ELSE later
                upto == IF failAt >= 0 /\ failAt > delivered THEN failAt - delivered ELSE rest
                n == Min(Min(cap, rest), upto)
            IN  /\ delivered' = delivered + n
                /\ consumed' = IF AB_WriteNotAll THEN consumed + rest ELSE consumed + n   \* write(): tail silently dropped
                /\ result' = result
    /\ nreads' = nreads + 1
    /\ UNCHANGED <<file, first, later, failAt, buffered, pc, items, detected>>

(* the same write_all calls into a buffer layer: a segment is accepted whole, the layer drains into the sink when it holds *)
(* more than file.buf bytes; the sink takes bytes up to its failure offset and fails after that                            *)
Drain(upto) ==
    IF failAt >= 0 /\ failAt < upto
    THEN delivered' = (IF failAt > delivered THEN failAt ELSE delivered) /\ result' = [st |-> "err", why |-> "io"]
    ELSE delivered' = upto /\ result' = result

WriteBuffered ==
    /\ Running /\ file.mode = "write" /\ file.buf > 0 /\ consumed < Total
    /\ LET end == SegEnd(CurSeg)
       IN  /\ consumed' = end
           /\ IF end - delivered > file.buf THEN Drain(end) ELSE UNCHANGED <<delivered, result>>
    /\ nreads' = nreads + 1
    /\ UNCHANGED <<file, first, later, failAt, buffered, pc, items, detected>>

(* the final flush: whatever the layer still holds has to reach the sink before success may be reported *)
Flush ==
    /\ Running /\ file.mode = "write" /\ file.buf > 0 /\ consumed >= Total /\ delivered < Total /\ ~AB_NoFinalFlush
    /\ Drain(Total)
    /\ nreads' = nreads + 1
    /\ UNCHANGED <<file, first, later, failAt, buffered, consumed, pc, items, detected>>

WriteDone ==
    /\ Running /\ file.mode = "write" /\ consumed >= Total
    /\ file.buf = 0 \/ delivered = Total \/ AB_NoFinalFlush
    /\ result' = [st |-> "ok", items |-> delivered]
    /\ UNCHANGED <<file, first, later, failAt, delivered, buffered, consumed, pc, items, detected, nreads>>

(****************************** machine ******************************)
Init ==
    /\ file \in Files
    /\ \E sch \in Schedules(file) : first = sch[1] /\ later = sch[2] /\ failAt = sch[3]
    /\ delivered = 0 /\ buffered = 0 /\ consumed = 0 /\ items = 0 /\ nreads = 0
    /\ pc = "start" /\ detected = [known |-> FALSE] /\ result = [st |-> "running"]

Next == Fill \/ NpyStart \/ NpyTake \/ NpyProbed \/ NpyEof
        \/ CreateStart \/ CreateDetect \/ CreateDecode \/ CreateDrain \/ CreateEmpty
        \/ WriteStep \/ WriteBuffered \/ Flush \/ WriteDone

Spec == Init /\ [][Next]_vars

(****************************** properties ******************************)
(* what the outcome must be, as a function of the bytes and the failure offset only *)
Expected ==
    IF failAt >= 0 /\ (file.mode # "write" \/ failAt < Total)
    THEN [ok |-> FALSE, items |-> 0]                      \* any failure (even at the very end of a read stream) is an error
    ELSE CASE file.mode = "npy" ->
                  IF file.len < HeaderLen THEN [ok |-> FALSE, items |-> 0]
                  ELSE IF (file.len - HeaderLen) % file.item # 0 THEN [ok |-> FALSE, items |-> 0]
                  ELSE IF (file.len - HeaderLen) \div file.item # file.count THEN [ok |-> FALSE, items |-> 0]
                  ELSE [ok |-> TRUE, items |-> file.count]
           [] file.mode = "create" -> IF file.len = 0 \/ ~file.valid THEN [ok |-> FALSE, items |-> 0] ELSE [ok |-> TRUE, items |-> file.count]
           [] file.mode = "write" -> [ok |-> TRUE, items |-> Total]

ScheduleIndependent ==
    ~Running => ((result.st = "ok") = Expected.ok /\ (result.st = "ok" => result.items = Expected.items))

NeverOkAfterFailure ==
    (~Running /\ failAt >= 0 /\ (file.mode # "write" \/ failAt < Total)) => result.st # "ok"

ConsumedAllOnOk == (~Running /\ result.st = "ok" /\ file.mode # "write") => consumed = Total /\ delivered = Total

Emit ==
    ~Running =>
        PrintT("REPLAY " \o ToJson([family |-> "stream", file |-> file, first |-> first, later |-> later, fail_at |-> failAt,
                                    expected |-> Expected, model_reads |-> nreads]))
=============================================================================
