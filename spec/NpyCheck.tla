------------------------------ MODULE NpyCheck ------------------------------
(***************************************************************************)
(* Enumeration harness for NpyFile.tla (C15, C16): one behaviour per       *)
(* scenario; TLC checks the layout / decode / damage laws on the model and *)
(* emits the scenario with the expected observation for the replay.        *)
(***************************************************************************)
EXTENDS NpyFile, Json

CONSTANTS
    WriterShapes,      \* shapes whose dict lengths realise every residue modulo 64
    ReaderTypes, ReaderOrders, ReaderVersions, ReaderSpellings, ReaderShapesFor(_),
    DamageCases        \* set of [version, type, shape]

VARIABLES kind, sc, done
vars == <<kind, sc, done>>

FortranShapes == {<<2>>, <<1>>, <<1, 3>>, <<3, 1>>, <<2, 3>>, <<1, 3, 5>>, <<3, 5, 1>>, <<1, 2, 2>>, <<1, 1, 4>>, <<2, 1, 3>>, <<1, 3, 1>>}
EdgeBytes == {9, 10, 12, 13, 32, 0, 255}

Init ==
    /\ done = FALSE
    /\ \/ kind = "writer" /\ sc \in [shape : WriterShapes]
       \/ kind = "reader" /\ sc \in [t : ReaderTypes, order : ReaderOrders, version : ReaderVersions,
                                      sp : ReaderSpellings, rep : {1}]
       \* long files: the item sequence repeated `rep' times (data well beyond any I/O buffer size)
       \/ kind = "reader" /\ sc \in [t : {"f8", "i2", "u1", "f4"}, order : {"<", ">"}, version : {1, 2},
                                      sp : {CHOOSE x \in ReaderSpellings : TRUE}, rep : {173}]
       \* data whose first and last bytes LOOK like text (blank, tab, LF, FF, CR) or like padding (0, 255): a reader
       \* may not treat any byte of the data section as anything but data
       \/ kind = "reader" /\ sc \in [t : ReaderTypes, order : {"<", ">"}, version : {1},
                                      sp : {CHOOSE x \in ReaderSpellings : TRUE}, rep : {1}, edge : EdgeBytes]
       \* files that are valid numpy output but outside what the reader supports: other dtypes, and Fortran order for EVERY
       \* shape - also those where a lone non-trivial axis (or only leading/trailing axes of length one) might tempt a reader
       \* to treat the two orders as the same
       \/ kind = "reject" /\ sc \in [descr : Unsupported, fortran : {FALSE}, shape : {<<2>>}]
                                     \cup [descr : {"<f8", "<i4", "|u1"}, fortran : {TRUE}, shape : FortranShapes]
       \* a header dict that names a key twice: as in the Python literal it is, the LAST value counts - the file is what that
       \* value says, whether the data happen to fit the first value or the last
       \/ kind = "dupkey" /\ sc \in [key : {"shape", "descr"}, fits : {"first", "last"}]
       \/ kind = "damage" /\ sc \in DamageCases

Observe == ~done /\ done' = TRUE /\ UNCHANGED <<kind, sc>>
Next == Observe
Spec == Init /\ [][Next]_vars

(******************************* writer (C15) *******************************)
WriterOk == kind = "writer" => WriterLayoutOk(sc.shape)

(* every residue modulo 64 of the dict length is realised by some shape in the set *)
ResiduesCovered ==
    \A r \in 0..(Align - 1) : \E sh \in WriterShapes : Len(WriterDict(sh)) % Align = r

(******************************* reader (C15) *******************************)
SeqOfSet(S) == LET f[T \in SUBSET S] == IF T = {} THEN <<>> ELSE LET x == CHOOSE y \in T : TRUE IN <<x>> \o f[T \ {x}] IN f[S]

RECURSIVE Flatten(_)
Flatten(ss) == IF ss = <<>> THEN <<>> ELSE Head(ss) \o Flatten(Tail(ss))

ReaderItems(t) == SeqOfSet(ItemPatterns(t))          \* items as little-endian byte patterns
FileItem(order, le) == IF order = ">" THEN Reverse(le) ELSE le

(* items (as little-endian patterns) whose FILE bytes are <<e, 0, .., 0>>, all e, and <<0, .., 0, e>> *)
EdgeItems(t, order, e) ==
    LET n == ItemSize(t)
        firstFile == [i \in 1..n |-> IF i = 1 THEN e ELSE 0]
        lastFile == [i \in 1..n |-> IF i = n THEN e ELSE 0]
        le(fb) == IF order = ">" THEN Reverse(fb) ELSE fb
    IN  [head |-> <<le(firstFile), Fill(n, e)>>, tail |-> <<Fill(n, e), le(lastFile)>>]

ReaderFile ==
    LET plain == ReaderItems(sc.t)
        items == IF "edge" \in DOMAIN sc
                 THEN LET x == EdgeItems(sc.t, sc.order, sc.edge) IN x.head \o plain \o x.tail
                 ELSE plain
        n == Len(items)
        sh == ReaderShapesFor(n * sc.rep)
        dict == SpelledDict((IF sc.order = "|" /\ ItemSize(sc.t) > 1 THEN "<" ELSE sc.order) \o sc.t, FALSE, sh, sc.sp)
    IN  [version |-> sc.version,
         header |-> NumpyHeader(sc.version, dict),
         shape |-> sh,
         repeat |-> sc.rep,
         data |-> Flatten([i \in 1..n |-> FileItem(sc.order, items[i])]),
         expect |-> [i \in 1..n |-> ValueJson(Decode(sc.t, sc.order, FileItem(sc.order, items[i])))]]

(* decoding laws, checked on every pattern of every type *)
DecodeLaws ==
    kind = "reader" =>
        \A le \in ItemPatterns(sc.t) :
            /\ Decode(sc.t, ">", Reverse(le)) = Decode(sc.t, "<", le)            \* BE(bytes) = LE(reversed bytes)
            /\ (sc.t \in {"u1", "u2", "u4", "u8"}) =>
                   LET d == Decode(sc.t, "<", le) IN ~QLt(d.v, QZero) /\ QLt(d.v, Pow2(8 * ItemSize(sc.t)))
            /\ (sc.t \in {"i1", "i2", "i4", "i8"}) =>
                   LET d == Decode(sc.t, "<", le)
                   IN  ~QLt(d.v, QNeg(Pow2(8 * ItemSize(sc.t) - 1))) /\ QLt(d.v, Pow2(8 * ItemSize(sc.t) - 1))

HeaderAligned ==
    kind = "reader" =>
        LET f == ReaderFile IN DataOffset(f.version, Len(f.header)) % Align = 0 /\ EndsWithNewline(f.header)

(******************************* damage (C16) *******************************)
DamageFile ==
    LET dict == SpelledDict("<" \o sc.type, FALSE, sc.shape,
                            [quote |-> "'", comma |-> ", ", colon |-> ": ", trailing |-> TRUE, order |-> <<1, 2, 3>>, tupleComma |-> FALSE])
    IN  [version |-> sc.version, header |-> NumpyHeaderGap(sc.version, dict, sc.gap), shape |-> sc.shape, gap |-> sc.gap,
         itemsize |-> ItemSize(sc.type), type |-> sc.type, elements |-> Elements(sc.shape)]

GapAsAnnounced ==
    kind = "damage" =>
        LET f == DamageFile IN (DataOffset(f.version, Len(f.header)) + f.gap) % Align = 0 /\ EndsWithNewline(f.header)

DamageOk ==
    kind = "damage" =>
        LET f == DamageFile IN DamageRejected(f.version, Len(f.header), f.elements, f.itemsize, 16)

(****************************** JSON boundary ******************************)
Emit ==
    done =>
        CASE kind = "writer" ->
                PrintT("REPLAY " \o ToJson([family |-> "npy", kind |-> "writer", shape |-> sc.shape,
                                            header |-> WriterHeader(sc.shape), dict_len |-> Len(WriterDict(sc.shape))]))
          [] kind = "reader" ->
                PrintT("REPLAY " \o ToJson([family |-> "npy", kind |-> "reader", type |-> sc.t, order |-> sc.order,
                                            file |-> ReaderFile]))
          [] kind = "reject" ->
                PrintT("REPLAY " \o ToJson([family |-> "npy", kind |-> "reject", descr |-> sc.descr, fortran |-> sc.fortran,
                    shape |-> sc.shape,
                    header |-> NumpyHeader(1, SpelledDict(sc.descr, sc.fortran, sc.shape,
                        [quote |-> "'", comma |-> ", ", colon |-> ": ", trailing |-> TRUE, order |-> <<1, 2, 3>>, tupleComma |-> FALSE]))]))
          [] kind = "dupkey" ->
                LET dict == IF sc.key = "shape"
                            THEN "{'descr': '<f8', 'fortran_order': False, 'shape': (2,), 'shape': (3,), }"
                            ELSE "{'descr': '<f4', 'fortran_order': False, 'descr': '<f8', 'shape': (2,), }"
                    \* bytes of data: what the first / the last value of the repeated key asks for
                    first == IF sc.key = "shape" THEN 16 ELSE 8
                    last == IF sc.key = "shape" THEN 24 ELSE 16
                IN  PrintT("REPLAY " \o ToJson([family |-> "npy", kind |-> "dupkey", key |-> sc.key, fits |-> sc.fits,
                                                header |-> NumpyHeader(1, dict),
                                                data_len |-> IF sc.fits = "first" THEN first ELSE last,
                                                accept |-> (sc.fits = "last"),
                                                shape |-> IF sc.key = "shape" THEN <<3>> ELSE <<2>>]))
          [] kind = "damage" ->
                PrintT("REPLAY " \o ToJson([family |-> "npy", kind |-> "damage", file |-> DamageFile, max_ext |-> 16,
                                            fills |-> SeqOfSet(ExtFills)]))
=============================================================================
