--------------------------- MODULE CreateCounters ---------------------------
(***************************************************************************)
(* The counter abstraction of the create loop (C10), for streams of any    *)
(* length: what is left of Create.tla when the spectrum is replaced by its *)
(* total mass (in whole records).                                          *)
(*   - Create.tla refines this machine (checked by TLC: property           *)
(*     Abs!Spec in MCCreate_refine.cfg), so everything proved here holds   *)
(*     for the detailed model;                                             *)
(*   - CreateTrace.tla replays traces recorded from the real create loop   *)
(*     (hook H1) against these actions;                                    *)
(*   - Conservation is an inductive invariant, checked for unbounded       *)
(*     stream length with Apalache (bin/check C10 thorough).               *)
(***************************************************************************)
EXTENDS Integers

VARIABLES
    \* @type: Str;
    phase,     \* "read" | "done" | "failed"
    \* @type: Int;
    sites,     \* records counted as read
    \* @type: Int;
    skipped,   \* records reported skipped
    \* @type: Int;
    applied,   \* records applied to the spectrum = its total mass
    \* @type: Bool;
    out,       \* the spectrum was written to stdout
    \* @type: Bool;
    strict

cvars == <<phase, sites, skipped, applied, out, strict>>

CInit == /\ phase = "read" /\ sites = 0 /\ skipped = 0 /\ applied = 0 /\ out = FALSE
         /\ strict \in BOOLEAN

Apply == /\ phase = "read"
         /\ applied' = applied + 1 /\ sites' = sites + 1
         /\ UNCHANGED <<phase, skipped, out, strict>>

Skip == /\ phase = "read" /\ ~strict
        /\ skipped' = skipped + 1 /\ sites' = sites + 1
        /\ UNCHANGED <<phase, applied, out, strict>>

Fail == /\ phase = "read"
        /\ phase' = "failed"
        /\ UNCHANGED <<sites, skipped, applied, out, strict>>

Finish == /\ phase = "read"
          /\ phase' = "done" /\ out' = TRUE
          /\ UNCHANGED <<sites, skipped, applied, strict>>

CNext == Apply \/ Skip \/ Fail \/ Finish
CSpec == CInit /\ [][CNext]_cvars

(* C10 *)
Conservation == applied + skipped = sites
NoPartialOutput == out => phase = "done"
StrictSkipsNothing == strict => skipped = 0
TypeOk == /\ phase \in {"read", "done", "failed"} /\ sites \in Nat /\ skipped \in Nat /\ applied \in Nat
          /\ out \in BOOLEAN /\ strict \in BOOLEAN

(* inductive invariant for Apalache: Init => IndInv, IndInv /\ Next => IndInv' *)
IndInv == TypeOk /\ Conservation /\ NoPartialOutput /\ StrictSkipsNothing
=============================================================================
