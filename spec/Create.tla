------------------------------- MODULE Create -------------------------------
(***************************************************************************)
(* The `sfs create' pipeline as a state machine (C01 C02 C08 C09 C10 C11;  *)
(* also feeds C04, C06, C12).                                              *)
(*                                                                         *)
(*   Build -> ( ReadSite -> ApplyStandard | ApplyProjected | SkipSite      *)
(*                        | StrictFail | GenotypeError | StreamError )*    *)
(*         -> Finish                                                       *)
(*                                                                         *)
(* One action per critical section of the implementation: building the     *)
(* sample map and projection (site::reader::Builder::build), reading and   *)
(* classifying one record into the per-population accumulators             *)
(* (site::Reader::read_site), applying the site to the spectrum and the    *)
(* counters (create::Runner::run), and the all-or-nothing output commit    *)
(* (Create::run).  As in the code, the accumulators `counts', `totals',    *)
(* `skips' and the projection's scratch index live ACROSS records and are  *)
(* reset by hand; ResetOn / ScratchResetOn = FALSE are the sabotage        *)
(* configurations that leave them dirty.                                   *)
(*                                                                         *)
(* The oracle is declarative and never looks at the accumulators:          *)
(* Contribution(row) is written from the property statements, and the      *)
(* invariants say that the machine's spectrum, counters, outcome and       *)
(* output are what the statements demand for the whole record stream.      *)
(***************************************************************************)
EXTENDS Shapes, Q, Genotypes, SampleMap, TLC, Json

CONSTANTS
    ColumnOrders,    \* set of column orders (sequences of sample names) of the input file
    ListSet,         \* set of sample lists; AllMarker means no list was given
    ProjMode,        \* "none" | "all" (every admissible target) | "both" | "bad" (inadmissible targets too)
    StrictSet,       \* subset of BOOLEAN
    RecSeqSet,       \* set of record sequences; a row is [gt |-> [sample -> call], bad |-> BOOLEAN] (+ optional pos, fmt)
    ResetOn,         \* FALSE: sabotage, accumulators are not reset between records
    ScratchResetOn   \* FALSE: sabotage, the projection scratch index is not zeroed

VARIABLES
    \* the scenario (drawn in Init, never changed)
    cols, list, proj, strict, recs,
    \* the machine
    phase,       \* "build" | "read" | "apply" | "done" | "failed"
    i,           \* records consumed so far
    counts,      \* per population: ALT alleles among called samples  (persistent)
    totals,      \* per population: called chromosomes                 (persistent)
    skips,       \* samples skipped at the current record              (persistent)
    scratch,     \* the projection's scratch index (odometer)          (persistent)
    cur,         \* classification of the record just read
    scs,         \* the spectrum so far: sequence over flat positions of Q
    sites,       \* records counted as read
    skipped,     \* records reported skipped
    out,         \* TRUE once the spectrum has been written to stdout
    diag,        \* diagnostic of a failed run
    h            \* history for replay: one entry per record

scenario == <<cols, list, proj, strict, recs>>
vars == <<cols, list, proj, strict, recs, phase, i, counts, totals, skips, scratch, cur, scs, sites, skipped, out, diag, h>>

NoProj == <<>>
EffList == IF list = AllMarker THEN AllList(cols) ELSE list
ColSet == {cols[c] : c \in 1..Len(cols)}
D == NPops(EffList)
FullShape == ShapeOf(EffList)
OutShape == IF proj = NoProj THEN FullShape ELSE proj
M == [j \in 1..Len(OutShape) |-> OutShape[j] - 1]      \* chromosomes per axis of the output

(* A record sits at contig:position.  By default record r is at position r (contig changes after the second *)
(* record); a row may carry its own position (field pos), so that histories can contain records at EQUAL   *)
(* positions - split multiallelic sites, or the same position on two contigs.                               *)
Contig(r) == IF r <= 2 THEN "chr1" ELSE "chr2"
Pos(r) == IF "pos" \in DOMAIN recs[r] THEN recs[r].pos ELSE r
SiteName(r) == Contig(r) \o ":" \o ToString(Pos(r))

(* A record may lack the GT key altogether (FORMAT = DP): then no sample has a call at it.  A row says so with *)
(* the optional field fmt = "nogt"; its gt entries are then not in the file.                                    *)
NoGt(row) == "fmt" \in DOMAIN row /\ row.fmt = "nogt"
CallOf(row, s) == IF NoGt(row) THEN G1(Dot) ELSE row.gt[s]
(* The classification of a call looks at the GT string alone.  A record may list FEWER ALT alleles than its calls refer to *)
(* (alt = "short": one ALT allele whatever the calls say) - out of spec, but nothing here may depend on the ALT column.    *)
ShortAlt(row) == "alt" \in DOMAIN row /\ row.alt = "short"

(******************************* Build *******************************)
BuildProblems ==
    (IF Len(EffList) = 0 THEN {"empty"} ELSE {})
    \cup (IF \E s \in Listed(EffList) : s \notin ColSet THEN {"unknown_sample"} ELSE {})
    \cup (IF proj # NoProj /\ Len(EffList) > 0
          THEN (IF Len(proj) # D THEN {"dimensions"}
                ELSE IF \E j \in 1..D : proj[j] > FullShape[j] THEN {"too_large"}
                ELSE IF \E j \in 1..D : proj[j] = 0 THEN {"zero"} ELSE {})
          ELSE {})

ZeroSeq(n) == [j \in 1..n |-> 0]
ZeroScs(sh) == [q \in 1..Elements(sh) |-> QZero]

Build ==
    /\ phase = "build"
    /\ IF BuildProblems # {}
       THEN /\ phase' = "failed"
            /\ diag' = [kind |-> "build", why |-> BuildProblems]
            /\ UNCHANGED <<counts, totals, scratch, scs>>
       ELSE /\ phase' = "read"
            /\ counts' = ZeroSeq(D) /\ totals' = ZeroSeq(D)
            /\ scratch' = ZeroSeq(D)
            /\ scs' = ZeroScs(OutShape)
            /\ UNCHANGED diag
    /\ UNCHANGED <<cols, list, proj, strict, recs, i, skips, cur, sites, skipped, out, h>>

(****************************** ReadSite ******************************)
(* fold the columns, in file order, into the accumulators - exactly what read_site does *)
RECURSIVE Accumulate(_, _, _)
Accumulate(row, c, acc) ==
    IF c > Len(cols) \/ acc.err THEN acc
    ELSE LET s == cols[c]
             p == PopOf(EffList, s)
         IN  IF p = 0 THEN Accumulate(row, c + 1, acc)              \* not selected: ignored before classification
             ELSE LET cl == Classify(CallOf(row, s))
                  IN  IF IsAlt(cl)
                      THEN Accumulate(row, c + 1, [acc EXCEPT !.counts[p] = @ + cl.k, !.totals[p] = @ + 2])
                      ELSE IF cl = PloidyError
                      THEN [acc EXCEPT !.err = TRUE]
                      ELSE Accumulate(row, c + 1, [acc EXCEPT !.skips = Append(@, [s |-> s, why |-> cl.c])])

SiteKind(acc) ==
    IF acc.err THEN "ploidy"
    ELSE IF proj = NoProj THEN (IF acc.skips = <<>> THEN "standard" ELSE "insufficient")
    ELSE IF \A j \in 1..D : acc.totals[j] = M[j] THEN "standard"           \* the exact path
    ELSE IF \A j \in 1..D : acc.totals[j] >= M[j] THEN "projected"
    ELSE "insufficient"

ReadSite ==
    /\ phase = "read"
    /\ i < Len(recs)
    /\ LET row == recs[i + 1]
           start == IF ResetOn THEN [counts |-> ZeroSeq(D), totals |-> ZeroSeq(D), skips |-> <<>>, err |-> FALSE]
                    ELSE [counts |-> counts, totals |-> totals, skips |-> skips, err |-> FALSE]
       IN  IF row.bad
           THEN /\ cur' = [kind |-> "bad"]
                /\ UNCHANGED <<counts, totals, skips>>
           ELSE LET acc == Accumulate(row, 1, start)
                IN  /\ counts' = acc.counts /\ totals' = acc.totals /\ skips' = acc.skips
                    /\ cur' = [kind |-> SiteKind(acc)]
    /\ i' = i + 1
    /\ phase' = "apply"
    /\ UNCHANGED <<cols, list, proj, strict, recs, scratch, scs, sites, skipped, out, diag, h>>

(******************************* Apply *******************************)
(* the projection iterator as coded: an odometer over the target index, starting from `scratch' *)
RECURSIVE Odometer(_, _, _)
Odometer(idx, axis, n) ==      \* the next index, or <<>> when exhausted; n bounds the recursion
    IF idx[axis] + 1 <= M[axis] THEN [idx EXCEPT ![axis] = @ + 1]
    ELSE IF axis > 1 THEN Odometer([idx EXCEPT ![axis] = 0], axis - 1, n)
    ELSE <<>>

RECURSIVE Visit(_, _)
Visit(idx, acc) ==             \* all indices visited from idx, in order, and the index left behind
    LET nxt == Odometer(idx, D, 0)
    IN  IF nxt = <<>> THEN [seq |-> Append(acc, idx), left |-> [j \in 1..D |-> IF j = 1 THEN idx[1] + 1 ELSE 0]]
        ELSE IF Len(acc) > Elements(OutShape) + 2 THEN [seq |-> acc, left |-> idx]
        ELSE Visit(nxt, Append(acc, idx))

HypAt(idx) == QProdSeq([j \in 1..D |-> QHyp(totals[j], counts[j], M[j], idx[j])])

AddAt(s, q, v) == [s EXCEPT ![q] = QAdd(@, v)]

Record(kind, contrib) ==
    h' = Append(h, [i |-> i, kind |-> kind, counts |-> counts, totals |-> totals, skips |-> skips,
                    contrib |-> contrib])

Sparse(seqQ) == [q \in {x \in 1..Len(seqQ) : ~QIsZero(seqQ[x])} |-> QStr(seqQ[q])]

ApplyStandard ==
    /\ phase = "apply" /\ cur.kind = "standard"
    /\ LET q == Flat(OutShape, counts) + 1
       IN  /\ scs' = AddAt(scs, q, QOne)
           /\ Record("standard", [x \in {q} |-> "1/1"])
    /\ sites' = sites + 1
    /\ phase' = "read"
    /\ UNCHANGED <<cols, list, proj, strict, recs, i, counts, totals, skips, scratch, cur, skipped, out, diag>>

ApplyProjected ==
    /\ phase = "apply" /\ cur.kind = "projected"
    /\ LET v == Visit(IF ScratchResetOn THEN ZeroSeq(D) ELSE scratch, <<>>)
           vals == [q \in 1..Elements(OutShape) |-> IF q <= Len(v.seq) THEN HypAt(v.seq[q]) ELSE QZero]
       IN  /\ scs' = [q \in 1..Elements(OutShape) |-> QAdd(scs[q], vals[q])]
           /\ scratch' = v.left
           /\ Record("projected", Sparse(vals))
    /\ sites' = sites + 1
    /\ phase' = "read"
    /\ UNCHANGED <<cols, list, proj, strict, recs, i, counts, totals, skips, cur, skipped, out, diag>>

SkipSite ==
    /\ phase = "apply" /\ cur.kind = "insufficient" /\ ~strict
    /\ skipped' = skipped + 1
    /\ sites' = sites + 1
    /\ Record("insufficient", [x \in {} |-> "0/1"])
    /\ phase' = "read"
    /\ UNCHANGED <<cols, list, proj, strict, recs, i, counts, totals, skips, scratch, cur, scs, out, diag>>

Fail(kind) ==
    /\ phase' = "failed"
    /\ diag' = [kind |-> kind, site |-> SiteName(i), record |-> i]
    /\ Record(kind, [x \in {} |-> "0/1"])
    /\ UNCHANGED <<cols, list, proj, strict, recs, i, counts, totals, skips, scratch, cur, scs, sites, skipped, out>>

StrictFail    == phase = "apply" /\ cur.kind = "insufficient" /\ strict /\ Fail("strict")
GenotypeError == phase = "apply" /\ cur.kind = "ploidy" /\ Fail("ploidy")
StreamError   == phase = "apply" /\ cur.kind = "bad" /\ Fail("bad")

Finish ==
    /\ phase = "read" /\ i = Len(recs)
    /\ phase' = "done"
    /\ out' = TRUE
    /\ UNCHANGED <<cols, list, proj, strict, recs, i, counts, totals, skips, scratch, cur, scs, sites, skipped, diag, h>>

Next == Build \/ ReadSite \/ ApplyStandard \/ ApplyProjected \/ SkipSite
        \/ StrictFail \/ GenotypeError \/ StreamError \/ Finish

(******************************* Init *******************************)
Targets(sh) == {t \in [1..Len(sh) -> 1..SeqMax(sh)] : \A j \in 1..Len(sh) : t[j] <= sh[j]}
BadTargets(sh) ==
    {t \in UNION {[1..l -> 0..(SeqMax(sh) + 1)] : l \in {Len(sh) - 1, Len(sh), Len(sh) + 1} \ {0}} :
        Len(t) # Len(sh) \/ \E j \in 1..Len(t) : t[j] = 0 \/ t[j] > sh[j]}

ProjChoices(l, c) ==
    LET el == IF l = AllMarker THEN AllList(c) ELSE l
        sh == ShapeOf(el)
    IN  CASE ProjMode = "none" -> {NoProj}
          [] ProjMode = "all"  -> IF Len(el) = 0 THEN {NoProj} ELSE Targets(sh)
          [] ProjMode = "both" -> IF Len(el) = 0 THEN {NoProj} ELSE {NoProj} \cup Targets(sh)
          [] ProjMode = "bad"  -> IF Len(el) = 0 THEN {NoProj} ELSE BadTargets(sh)

Init ==
    /\ cols \in ColumnOrders
    /\ list \in ListSet
    /\ proj \in ProjChoices(list, cols)
    /\ strict \in (IF proj = NoProj THEN StrictSet ELSE {FALSE})   \* the CLI forbids --strict with projection
    /\ recs \in RecSeqSet
    /\ phase = "build" /\ i = 0
    /\ counts = <<>> /\ totals = <<>> /\ skips = <<>> /\ scratch = <<>>
    /\ cur = [kind |-> "none"]
    /\ scs = <<>> /\ sites = 0 /\ skipped = 0 /\ out = FALSE
    /\ diag = [kind |-> "none"]
    /\ h = <<>>

Spec == Init /\ [][Next]_vars

(*************************** declarative oracle ***************************)
(* straight from the statements of C01, C02, C08, C10; no accumulators *)
(* parameterised by the effective sample list `el' so that relations between runs with   *)
(* different lists (C09) can be stated; the machine's own run uses EffList.               *)
OutShapeFor(el) == IF proj = NoProj THEN ShapeOf(el) ELSE proj
SelectedPop(el, j) == {s \in Listed(el) : PopOf(el, s) = j}
Called(el, row, j) == {s \in SelectedPop(el, j) : IsAlt(ClassifyRef(CallOf(row, s)))}
Tj(el, row, j) == 2 * Cardinality(Called(el, row, j))
RECURSIVE SumAlt(_, _)
SumAlt(row, S) == IF S = {} THEN 0 ELSE LET s == CHOOSE x \in S : TRUE IN ClassifyRef(CallOf(row, s)).k + SumAlt(row, S \ {s})
Aj(el, row, j) == SumAlt(row, Called(el, row, j))

RowClassFor(el, row) ==
    IF row.bad THEN "bad"
    ELSE IF \E s \in Listed(el) : ClassifyRef(CallOf(row, s)) = PloidyError THEN "ploidy"
    ELSE IF proj = NoProj
         THEN (IF \A s \in Listed(el) : IsAlt(ClassifyRef(CallOf(row, s))) THEN "count" ELSE "skip")
         ELSE (IF \A j \in 1..NPops(el) : Tj(el, row, j) >= OutShapeFor(el)[j] - 1 THEN "count" ELSE "skip")
RowClass(row) == RowClassFor(EffList, row)

(* what a counted record adds to the spectrum *)
ContributionFor(el, row) ==
    LET sh == OutShapeFor(el)
        d == NPops(el)
        a == [j \in 1..d |-> Aj(el, row, j)]
        t == [j \in 1..d |-> Tj(el, row, j)]
    IN  IF proj = NoProj
        THEN LET hit == Flat(sh, a) + 1 IN [q \in 1..Elements(sh) |-> IF q = hit THEN QOne ELSE QZero]
        ELSE [q \in 1..Elements(sh) |->
                LET k == Unflat(sh, q - 1)
                IN  QProdSeq([j \in 1..d |-> QHyp(t[j], a[j], sh[j] - 1, k[j])])]
Contribution(row) == ContributionFor(EffList, row)

(* the whole run, declaratively *)
FirstFailure ==      \* index of the first record that makes the run fail, 0 if none
    LET F == {r \in 1..Len(recs) : RowClass(recs[r]) \in {"bad", "ploidy"} \/ (strict /\ RowClass(recs[r]) = "skip")}
    IN  IF F = {} THEN 0 ELSE CHOOSE r \in F : \A x \in F : r <= x

(* records in the outer loop: TLC evaluates function constructors lazily and without memo, so *)
(* each per-record contribution is built once (TLCEval) and then added cell by cell          *)
RECURSIVE SumContribsFor(_, _)
SumContribsFor(el, k) ==
    IF k = 0 THEN ZeroScs(OutShapeFor(el))
    ELSE LET prev == SumContribsFor(el, k - 1)
             c == TLCEval(IF RowClassFor(el, recs[k]) = "count" THEN ContributionFor(el, recs[k])
                          ELSE ZeroScs(OutShapeFor(el)))
         IN  TLCEval([q \in 1..Elements(OutShapeFor(el)) |-> QAdd(prev[q], c[q])])
ExpectedScsFor(el) == SumContribsFor(el, Len(recs))
ExpectedScs == ExpectedScsFor(EffList)
ExpectedSkipped == Cardinality({r \in 1..Len(recs) : RowClass(recs[r]) = "skip"})

(******************************* invariants *******************************)
Mass == QSumSeq(scs)

(* C10: every record is counted with weight one or reported skipped - in EVERY state *)
Conservation ==
    phase \in {"read", "apply", "done"} => QAdd(Mass, QI(skipped)) = QI(sites)

(* C01 C02 C11: the spectrum is the sum of the per-record contributions *)
FinalIsSumOfContributions ==
    phase = "done" =>
        /\ FirstFailure = 0
        /\ scs = ExpectedScs
        /\ skipped = ExpectedSkipped
        /\ sites = Len(recs)
        /\ Len(OutShape) = D

(* C08 C10: failures are detected at the first offending record, name it, and write nothing *)
FailsWhereExpected ==
    phase = "failed" =>
        /\ ~out
        /\ IF diag.kind = "build" THEN BuildProblems # {}
           ELSE /\ BuildProblems = {}
                /\ FirstFailure = diag.record
                /\ diag.kind = (IF RowClass(recs[diag.record]) = "skip" THEN "strict" ELSE RowClass(recs[diag.record]))
                /\ diag.site = SiteName(diag.record)

NoPartialOutput == out => (phase = "done" /\ diag.kind = "none")

ExpectedOutcomeReached ==   \* the machine cannot finish where the oracle demands a failure
    phase = "done" => (BuildProblems = {} /\ FirstFailure = 0)

(* C01: samples that were not selected never influence anything (even with a ploidy error) *)
UnselectedIrrelevant ==
    (phase = "apply" /\ cur.kind # "bad") =>
        LET row == recs[i]
            other == [row EXCEPT !.gt = [s \in DOMAIN row.gt |->
                         IF s \in Listed(EffList) THEN row.gt[s] ELSE G1(1)]]
            start == [counts |-> ZeroSeq(D), totals |-> ZeroSeq(D), skips |-> <<>>, err |-> FALSE]
        IN  ResetOn => Accumulate(other, 1, start) = Accumulate(row, 1, start)

(* per record: what was applied is what the statement says that record contributes *)
PerRecordContribution ==
    (h # <<>> /\ h[Len(h)].kind \in {"standard", "projected"}) =>
        h[Len(h)].contrib = Sparse(Contribution(recs[h[Len(h)].i]))

(* C09: reordering list entries without changing the first-appearance order of the labels *)
(* changes nothing; reordering the labels permutes the axes correspondingly.              *)
Transposed(sh, x, tau) ==     \* y[k o tau] = x[k]: axis j of x becomes axis tau[j] of y
    LET ysh == [j \in 1..Len(sh) |-> sh[CHOOSE a \in 1..Len(sh) : tau[a] = j]]
    IN  [q \in 1..Elements(ysh) |->
            LET ky == Unflat(ysh, q - 1)
                kx == [a \in 1..Len(sh) |-> ky[tau[a]]]
            IN  x[Flat(sh, kx) + 1]]

ListOrderRelations ==
    (phase = "done" /\ list # AllMarker /\ proj = NoProj /\ Len(list) <= 3) =>
        LET base == ExpectedScs
            shp == ShapeOf(list)
            labs == Labels(list)
        IN  \A pi \in Perms(Len(list)) :
                LET l2 == Permute(list, pi)
                    tau == [a \in 1..Len(labs) |-> PopOfLabel(l2, labs[a])]
                    other == ExpectedScsFor(l2)
                IN  other = Transposed(shp, base, tau)

(* Refinement: forgetting the spectrum (keeping only how many records were applied) turns this  *)
(* machine into the counter machine of CreateCounters.tla, whose invariants are proved for      *)
(* streams of any length and against which traces of the real create loop are validated.        *)
AbsPhase == IF phase \in {"build", "read", "apply"} THEN "read" ELSE phase
AppliedCount == Cardinality({j \in 1..Len(h) : h[j].kind \in {"standard", "projected"}})
Abs == INSTANCE CreateCounters WITH phase <- AbsPhase, sites <- sites, skipped <- skipped,
                                    applied <- AppliedCount, out <- out, strict <- strict
RefinesCounters == Abs!CSpec

(* The stderr protocol of skipped sites (grown beyond the listed properties): the first skipped site is       *)
(* announced at the default verbosity, every later one only with -v; the summary follows at the end.           *)
SkippedSiteNames == LET S == SelectSeq([r \in 1..Len(recs) |-> r], LAMBDA r : r <= i /\ RowClass(recs[r]) = "skip")
                    IN  [k \in 1..Len(S) |-> SiteName(S[k])]
AnnouncedAt(verbosity) == IF verbosity < 0 THEN <<>>              \* -q / -qq: nothing below a warning is shown
                          ELSE IF verbosity >= 1 THEN SkippedSiteNames
                          ELSE IF SkippedSiteNames = <<>> THEN <<>> ELSE <<SkippedSiteNames[1]>>

(****************************** JSON boundary ******************************)
GtJson(row) == [s \in DOMAIN row.gt |-> Render(row.gt[s])]
Terminal == phase \in {"done", "failed"}

Emit ==
    Terminal =>
        PrintT("REPLAY " \o ToJson(
            [family |-> "create",
             cols |-> cols,
             list |-> IF list = AllMarker THEN <<>> ELSE list,
             all |-> (list = AllMarker),
             samples_arg |-> IF list = AllMarker THEN "" ELSE SamplesArg(list),
             samples_file |-> IF list = AllMarker THEN "" ELSE SamplesFile(list),
             proj |-> proj,
             strict |-> strict,
             recs |-> [r \in 1..Len(recs) |-> [contig |-> Contig(r), pos |-> Pos(r), bad |-> recs[r].bad,
                                               nogt |-> NoGt(recs[r]), short_alt |-> ShortAlt(recs[r]), gt |-> GtJson(recs[r])]],
             h |-> h,
             outcome |-> phase,
             diag |-> diag,
             shape |-> IF BuildProblems = {} THEN OutShape ELSE <<>>,
             scs |-> IF phase = "done" THEN [q \in 1..Len(scs) |-> QStr(scs[q])] ELSE <<>>,
             sites |-> sites,
             skipped |-> skipped,
             announced_default |-> IF phase = "done" THEN AnnouncedAt(0) ELSE <<>>,
             announced_verbose |-> IF phase = "done" THEN AnnouncedAt(1) ELSE <<>>]))
=============================================================================
