---------------------------- MODULE ProjOdometer ----------------------------
(***************************************************************************)
(* The cell order of one projected site (C02, C03): `Projected::            *)
(* add_unchecked' zips the cells of the target spectrum, in row-major       *)
(* order, with the items of `ProjectIter', whose coordinates `to' live in  *)
(* a buffer that is reused from site to site (zeroed by                     *)
(* `PartialProjection::project_unchecked').  The weight added to the j-th   *)
(* cell is the product of hypergeometric terms AT THE COORDINATES THE       *)
(* ITERATOR HOLDS when it yields its j-th item, so the statement "cell k    *)
(* receives prod_j Hyp(t_j, a_j; m_j, k_j)" needs: the j-th item is         *)
(* yielded at the coordinates of the j-th cell.  Project.tla / Create.tla   *)
(* check that on small shapes by value; here it is an inductive invariant   *)
(* for two populations with targets P1, P2 OF ANY SIZE (Apalache).          *)
(*                                                                         *)
(* One step = one call of ProjectIter::next (impl_next_rec, recursion       *)
(* unrolled), plus the site boundary: a new site starts from a zeroed       *)
(* buffer (NewSite).  AB_NoZero: the sabotage of seeded changes C11/C11b -   *)
(* the buffer keeps the coordinates of the previous site.                   *)
(***************************************************************************)
EXTENDS Integers

CONSTANTS
    \* @type: Int;
    P1,               \* target chromosomes of population 1: coordinates 0..P1
    \* @type: Int;
    P2,
    \* @type: Bool;
    AB_NoZero

VARIABLES
    \* @type: Int;
    t1,
    \* @type: Int;
    t2,
    \* @type: Int;
    index,            \* items yielded for this site
    \* @type: Int;
    cell,             \* the cell of the spectrum the last item was added to (-1: none yet), row-major
    \* @type: Bool;
    done              \* the iterator returned None (the zip ends with the cells, so this is never polled in the tool)

pvars == <<t1, t2, index, cell, done>>

Sizes == P1 \in Int /\ P2 \in Int /\ P1 >= 0 /\ P2 >= 0
ConstInit == Sizes /\ AB_NoZero = FALSE
ConstInitAB == Sizes /\ AB_NoZero = TRUE
Cells == (P1 + 1) * (P2 + 1)

PInit == t1 = 0 /\ t2 = 0 /\ index = 0 /\ cell = -1 /\ done = FALSE

First == /\ ~done /\ index = 0 /\ index < Cells
         /\ index' = 1 /\ cell' = 0 /\ UNCHANGED <<t1, t2, done>>
Inner == /\ ~done /\ index # 0 /\ index < Cells /\ t2 + 1 <= P2
         /\ t2' = t2 + 1 /\ index' = index + 1 /\ cell' = cell + 1 /\ UNCHANGED <<t1, done>>
Carry == /\ ~done /\ index # 0 /\ index < Cells /\ ~(t2 + 1 <= P2) /\ t1 + 1 <= P1
         /\ t2' = 0 /\ t1' = t1 + 1 /\ index' = index + 1 /\ cell' = cell + 1 /\ UNCHANGED done
(* the zip stops polling once the cells are used up: the consumer is what bounds the iterator *)
NewSite == /\ index = Cells
           /\ index' = 0 /\ cell' = -1 /\ done' = FALSE
           /\ IF AB_NoZero THEN UNCHANGED <<t1, t2>> ELSE (t1' = 0 /\ t2' = 0)
PNext == First \/ Inner \/ Carry \/ NewSite

(* the coordinates at which the last item was computed are those of the cell it was added to *)
IndInv ==
    /\ t1 \in Int /\ t2 \in Int /\ index \in Int /\ cell \in Int /\ done \in BOOLEAN
    /\ t1 >= 0 /\ t1 <= P1 /\ t2 >= 0 /\ t2 <= P2
    /\ index >= 0 /\ index <= Cells
    /\ done = FALSE
    /\ (index = 0 => (t1 = 0 /\ t2 = 0 /\ cell = -1))
    /\ (index > 0 => (cell = index - 1 /\ cell = t1 * (P2 + 1) + t2))
=============================================================================
