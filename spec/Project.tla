------------------------------- MODULE Project -------------------------------
(***************************************************************************)
(* C03 as a state machine.  A behaviour starts from the identity spectrum  *)
(* of shape `from' and removes one chromosome at a time from any axis      *)
(* (action Down1) until it reaches the target `to'.  TLC explores every    *)
(* interleaving of the elementary steps.  In every reachable state the     *)
(* spectrum must equal the closed-form hypergeometric projection from      *)
(* `from' to the current shape, so                                         *)
(*    - the closed form is the composition of elementary down-samplings    *)
(*      in ANY order of axes (confluence; states of different paths merge  *)
(*      because no history is kept),                                       *)
(*    - projecting in two steps equals projecting directly,                *)
(*    - mass and non-negativity are preserved, same shape is the identity, *)
(*    - projection commutes with marginalization.                          *)
(* kind = "large": one-axis operator rows for sizes up to thousands of     *)
(* chromosomes, evaluated exactly (Q.class) - the sizes where the          *)
(* implementation switches from its factorial table to log-gamma and where *)
(* binomials leave the f64 range.                                          *)
(* kind = "reject": inadmissible targets must be errors.                   *)
(***************************************************************************)
EXTENDS SpectrumOps, Json

CONSTANTS
    FromSet,        \* starting shapes for the grid
    LargeSet,       \* set of <<n, m, k>>: n chromosomes -> m, source class k (one axis)
    AB_WrongStep    \* sabotage: elementary step with the two weights exchanged

VARIABLES kind, from, to, sp
vars == <<kind, from, to, sp>>

Targets(f) == {t \in [1..Len(f) -> 1..SeqMax(f)] : \A j \in 1..Len(f) : t[j] <= f[j]}

RejectProbes(f) ==
    {t \in UNION {[1..l -> 0..(SeqMax(f) + 1)] : l \in {Len(f) - 1, Len(f), Len(f) + 1} \ {0}} :
        ProjectReasons(f, t) # {}}

Init ==
    \/ /\ kind = "grid"
       /\ from \in FromSet
       /\ to \in Targets(from)
       /\ sp = Identity(from)
    \/ /\ kind = "reject"
       /\ from \in FromSet
       /\ to = from
       /\ sp = Identity(from)
    \/ /\ kind = "large"
       /\ \E t \in LargeSet : from = <<t[1] + 1>> /\ to = <<t[2] + 1>> /\ sp = t[3]

Step(s, a) ==
    IF AB_WrongStep
    THEN LET n == s.shape[a] - 1
             osh == [s.shape EXCEPT ![a] = @ - 1]
         IN  [shape |-> osh,
              cells |-> [q \in 1..Elements(osh) |->
                  LET k == Unflat(osh, q - 1) up == [k EXCEPT ![a] = @ + 1]
                  IN  LFAdd(LFScale(QMk(k[a] + 1, n), Cell(s, k)), LFScale(QMk(n - k[a], n), Cell(s, up)))]]
    ELSE Down1Op(s, a)

Down1(a) == /\ kind = "grid"
            /\ sp.shape[a] > to[a]
            /\ sp' = Step(sp, a)
            /\ UNCHANGED <<kind, from, to>>

Next == \E a \in 1..Len(from) : Down1(a)
Spec == Init /\ [][Next]_vars

(******************************* invariants *******************************)
ClosedForm == kind = "grid" => sp = ProjectDecl(Identity(from), sp.shape)

TwoStepEqualsDirect == kind = "grid" => ProjectDecl(sp, to) = ProjectDecl(Identity(from), to)

MassAndSign == kind = "grid" => MassPreserved(sp, Elements(from)) /\ NonNegative(sp)

SameShapeIsIdentity == kind = "grid" => ProjectDecl(Identity(from), from) = Identity(from)

CommutesWithMarginalize ==
    (kind = "grid" /\ Len(from) > 1) =>
        \A a \in 1..Len(from) :
            MarginalizeDecl(sp, {a})
              = ProjectDecl(MarginalizeDecl(Identity(from), {a}), RemoveAt(sp.shape, a))

AdmissibleIffNoReason ==
    kind = "grid" => ProjectReasons(from, to) = {} /\ \A t \in RejectProbes(from) : t \notin Targets(from)

(* one-axis row: sums to one, entries non-negative, supported on the hypergeometric range *)
LargeRow(n, m, k) == [j \in 1..(m + 1) |-> QHyp(n, k, m, j - 1)]
LargeRowOk ==
    kind = "large" =>
        LET n == from[1] - 1 m == to[1] - 1 k == sp row == LargeRow(n, m, k)
        IN  /\ QSumSeq(row) = QOne
            /\ \A j \in 1..(m + 1) : ~QLt(row[j], QZero)
            /\ \A j \in 1..(m + 1) : (~QIsZero(row[j])) <=> (j - 1 <= k /\ m - (j - 1) <= n - k)
            \* mean of the hypergeometric distribution: m k / n
            /\ QSumSeq([j \in 1..(m + 1) |-> QMul(QI(j - 1), row[j])]) = QMk(m * k, n)

(****************************** JSON boundary ******************************)
Emit ==
    CASE kind = "grid" ->
            (sp.shape = to) =>
                PrintT("REPLAY " \o ToJson([family |-> "project", kind |-> "grid", from |-> from, to |-> to,
                                            result |-> SpJson(sp)]))
      [] kind = "reject" ->
            PrintT("REPLAY " \o ToJson([family |-> "project", kind |-> "reject", from |-> from,
                                        probes |-> {[to |-> t, why |-> ProjectReasons(from, t)] : t \in RejectProbes(from)}]))
      [] kind = "large" ->
            LET n == from[1] - 1 m == to[1] - 1 k == sp
            IN  PrintT("REPLAY " \o ToJson([family |-> "project", kind |-> "large", n |-> n, m |-> m, k |-> k,
                        row |-> [j \in 1..(m + 1) |-> QSci(QHyp(n, k, m, j - 1), 20)]]))
=============================================================================
