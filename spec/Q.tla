------------------------------- MODULE Q -------------------------------
(***************************************************************************)
(* Exact rational arithmetic as an abstract data type.                     *)
(*                                                                         *)
(* A specification that uses Q never looks inside a Q value: it builds     *)
(* values with QI / QMk, combines them with the operators below, compares  *)
(* them with = (values are canonical), QLt, QLe, and prints them with      *)
(* QStr / QSci.                                                            *)
(*                                                                         *)
(* The definitions in this module are the meaning: a value is a pair       *)
(* <<n, d>> of TLC integers in lowest terms with d > 0.  They are correct  *)
(* as long as every intermediate fits TLC's 32-bit integers.  Q.class      *)
(* (spec/Q.java, compiled by setup) is a TLC module override that          *)
(* evaluates the same operators with java.math.BigInteger on the           *)
(* canonical string "n/d", which lifts the size limit.  mc/MCQ.tla         *)
(* evaluates one expression set both ways and bin/check diffs the output,  *)
(* so the override cannot drift from the definitions here.                 *)
(***************************************************************************)
EXTENDS Integers, Sequences, TLC

LOCAL QAbs(x) == IF x < 0 THEN -x ELSE x

RECURSIVE QGcd(_, _)
LOCAL QGcd(a, b) == IF b = 0 THEN a ELSE QGcd(b, a % b)

LOCAL QNorm(n, d) ==
    LET s == IF d < 0 THEN -1 ELSE 1
        g == QGcd(QAbs(n), QAbs(d))
    IN  <<(s * n) \div g, (s * d) \div g>>

QMk(n, d) == QNorm(n, d)               \* n/d, d # 0
QI(n)     == <<n, 1>>
QZero     == QI(0)
QOne      == QI(1)

QAdd(a, b) == QNorm(a[1] * b[2] + b[1] * a[2], a[2] * b[2])
QSub(a, b) == QNorm(a[1] * b[2] - b[1] * a[2], a[2] * b[2])
QMul(a, b) == QNorm(a[1] * b[1], a[2] * b[2])
QDiv(a, b) == QNorm(a[1] * b[2], a[2] * b[1])   \* b # 0
QNeg(a)    == <<-a[1], a[2]>>
QLt(a, b)  == a[1] * b[2] < b[1] * a[2]
QLe(a, b)  == a[1] * b[2] <= b[1] * a[2]
QIsZero(a) == a[1] = 0
QSign(a)   == IF a[1] < 0 THEN -1 ELSE IF a[1] = 0 THEN 0 ELSE 1

RECURSIVE QSumSeq(_)
QSumSeq(s) == IF s = <<>> THEN QZero ELSE QAdd(Head(s), QSumSeq(Tail(s)))

RECURSIVE QProdSeq(_)
QProdSeq(s) == IF s = <<>> THEN QOne ELSE QMul(Head(s), QProdSeq(Tail(s)))

RECURSIVE QBinomI(_, _)
LOCAL QBinomI(n, k) ==                  \* integer binomial, Pascal recursion free of division
    IF k < 0 \/ k > n THEN 0
    ELSE IF k = 0 \/ k = n THEN 1
    ELSE QBinomI(n - 1, k - 1) + QBinomI(n - 1, k)
QBinom(n, k) == QI(QBinomI(n, k))       \* C(n, k) as a rational; 0 when k > n or k < 0

(* Hypergeometric pmf: population n with k successes, m draws, j observed *)
QHyp(n, k, m, j) ==
    IF j > m \/ j > k \/ m - j > n - k THEN QZero
    ELSE QDiv(QMul(QBinom(k, j), QBinom(n - k, m - j)), QBinom(n, m))

RECURSIVE QPowI(_, _)
LOCAL QPowI(b, e) == IF e = 0 THEN 1 ELSE b * QPowI(b, e - 1)

RECURSIVE QHarm(_, _)
QHarm(m, p) ==                           \* sum_{i=1..m} 1/i^p
    IF m <= 0 THEN QZero ELSE QAdd(QHarm(m - 1, p), QMk(1, QPowI(m, p)))

RECURSIVE QPowNat(_, _)
LOCAL QPowNat(a, e) == IF e = 0 THEN QOne ELSE QMul(a, QPowNat(a, e - 1))
QPow(a, e) == IF e >= 0 THEN QPowNat(a, e) ELSE QDiv(QOne, QPowNat(a, -e))   \* a^e, e any integer

QStr(a) == ToString(a[1]) \o "/" \o ToString(a[2])

(* floor of a rational, as an integer-valued rational *)
QFloor(a) == QI(IF a[1] >= 0 THEN a[1] \div a[2] ELSE -((-a[1] + a[2] - 1) \div a[2]))

(* Output formatting only: decimal scientific notation with `digits'       *)
(* significant digits.  Implemented in the override; the fallback prints   *)
(* the exact fraction, which the harness also accepts.                     *)
QSci(a, digits) == QStr(a)

(* Output formatting only: fixed-point decimal with p fractional digits, rounding half to even (what     *)
(* `{:.p}` prints for a value that is exactly representable).  Override only; the fallback prints the    *)
(* exact fraction.                                                                                       *)
QFix(a, p) == QStr(a)
=============================================================================
