---------------------------- MODULE Marginalize ----------------------------
(***************************************************************************)
(* C04 as a state machine.  A behaviour starts from the identity spectrum  *)
(* of some shape and removes axes one at a time, in any order (action      *)
(* RemoveAxis), the way the implementation marginalizes internally and the *)
(* way a user chains `view -m` calls.  The state remembers which ORIGINAL  *)
(* axes survive, so "the order in which axes are named does not matter"    *)
(* and "jointly or one at a time" become state invariants:                 *)
(*     sp = MarginalizeDecl(Identity(shape0), removed)                     *)
(* in every reachable state, whatever path led there (diamond property).   *)
(* The public operation as coded (validate, sort, shift) is checked        *)
(* against the declarative operator for every sequence of axis numbers a   *)
(* caller can write, valid or not (probe tables).                          *)
(***************************************************************************)
EXTENDS SpectrumOps, Json

CONSTANTS
    ShapeSet,
    MaxProbeLen,         \* invalid/valid axis sequences up to this length are probed
    AB_NoShift           \* sabotage: forget to renumber axes after each removal

VARIABLES
    shape0,      \* the starting shape
    surviving,   \* sequence of original axis positions (1-based) still present, in order
    sp,          \* the symbolic spectrum
    path,        \* history: sequence of [cur |-> 0-based axis in CURRENT numbering, orig |-> 0-based original axis]
    kind         \* "path" | "table"

vars == <<shape0, surviving, sp, path, kind>>

Removed == {a \in 1..Len(shape0) : \A j \in 1..Len(surviving) : surviving[j] # a}

Init == /\ shape0 \in ShapeSet
        /\ kind \in {"path", "table"}
        /\ surviving = [i \in 1..Len(shape0) |-> i]
        /\ sp = Identity(shape0)
        /\ path = <<>>

(* remove the axis at current position c (1-based); at least one axis must remain *)
RemoveAxis(c) ==
    /\ kind = "path"
    /\ Len(surviving) > 1
    /\ sp' = RemoveAxisOp(sp, c)
    /\ path' = Append(path, [cur |-> c - 1, orig |-> surviving[c] - 1])
    /\ surviving' = RemoveAt(surviving, c)
    /\ UNCHANGED <<shape0, kind>>

Next == \E c \in 1..Len(surviving) : RemoveAxis(c)

Spec == Init /\ [][Next]_vars

(******************************* invariants *******************************)
(* path independence + equals the array sum over the removed axes + original order kept *)
EqualsDeclarative ==
    kind = "path" => sp = MarginalizeDecl(Identity(shape0), Removed)

ShapeIsSurviving ==
    sp.shape = [j \in 1..Len(surviving) |-> shape0[surviving[j]]]

MassInvariant == MassPreserved(sp, Elements(shape0))

(* the public operation, as coded, on the axis sequence in the order this path named them *)
AsCodedAgrees ==
    (kind = "path" /\ path # <<>>) =>
        LET axes == [j \in 1..Len(path) |-> path[j].orig]
            r == MarginalizeAsCoded(Identity(shape0), axes, ~AB_NoShift)
        IN  r.ok /\ r.sp = sp

(* keep K == remove complement(K) *)
KeepEqualsRemoveComplement ==
    (kind = "path" /\ path # <<>>) =>
        LET keep == {surviving[j] : j \in 1..Len(surviving)}
        IN  MarginalizeDecl(Identity(shape0), (1..Len(shape0)) \ keep) = sp

(******************************* probe table *******************************)
AxisSeqs(d) == UNION {[1..l -> 0..(d + 1)] : l \in 1..MaxProbeLen}
ProbeTable(sh) ==
    {[axes |-> axes,
      r |-> LET x == MarginalizeAsCoded(Identity(sh), axes, TRUE)
            IN  IF x.ok THEN [ok |-> TRUE, sp |-> SpJson(x.sp)] ELSE [ok |-> FALSE, why |-> x.why]]
     : axes \in AxisSeqs(Len(sh))}

(* a sequence is accepted iff it names distinct in-range axes and leaves one; and then the *)
(* result is the declarative marginal of the named SET                                     *)
ProbeSound ==
    kind = "table" =>
        \A axes \in AxisSeqs(Len(shape0)) :
            LET x == MarginalizeAsCoded(Identity(shape0), axes, TRUE)
                S == {axes[i] + 1 : i \in 1..Len(axes)}
                valid == /\ Cardinality(S) = Len(axes)
                         /\ S \subseteq 1..Len(shape0)
                         /\ Cardinality(S) < Len(shape0)
            IN  /\ x.ok <=> valid
                /\ x.ok => x.sp = MarginalizeDecl(Identity(shape0), S)

(****************************** JSON boundary ******************************)
Emit ==
    IF kind = "path"
    THEN path # <<>> =>
            PrintT("REPLAY " \o ToJson([family |-> "marginalize", kind |-> "path", shape |-> shape0,
                                        path |-> path, result |-> SpJson(sp)]))
    ELSE PrintT("REPLAY " \o ToJson([family |-> "marginalize", kind |-> "table", shape |-> shape0,
                                     probes |-> ProbeTable(shape0)]))
=============================================================================
