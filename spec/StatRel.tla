------------------------------- MODULE StatRel -------------------------------
(***************************************************************************)
(* C14: the transformations that must not matter, as a machine.            *)
(* State: a spectrum with exact rational cells, the spectrum the behaviour *)
(* started from, the accumulated scale factor and the list of operations   *)
(* applied.  Actions: Fold0 (fold with fill zero), Swap (exchange the two  *)
(* populations), Scale(c), SetMono(u, v) (overwrite the two monomorphic    *)
(* entries).  In every reachable state each statistic must relate to its   *)
(* value on the starting spectrum as the property says: unchanged, or      *)
(* multiplied by the factor - provided every operation applied so far is   *)
(* one the statistic is claimed to be insensitive to.  Because the         *)
(* relations are invariants over the SPECIFICATION's statistics, TLC first *)
(* confirms that each demanded relation is mathematically true in the      *)
(* bound.  f3 / f4 against f2 of two-population marginals hold in every    *)
(* state of 3- and 4-population behaviours.                                *)
(***************************************************************************)
EXTENDS Stats, SpectrumOps, Json

CONSTANTS StartSet, MaxOps, ScaleFactors, MonoValues, AB_ClaimFuLiFoldInvariant

VARIABLES base, sp, factor, ops
vars == <<base, sp, factor, ops>>

(* apply a symbolic operator (linear forms over the input cells, fill read as 0) to numeric cells *)
EvalLF(f, cells) == QSumSeq([j \in 1..Cardinality(DOMAIN f \ {FillId}) |->
                        LET ids == SortedSeq(DOMAIN f \ {FillId}) IN QMul(f[ids[j]], cells[ids[j]])])
ApplySym(sym, cells) == [q \in 1..Elements(sym.shape) |-> EvalLF(sym.cells[q], cells)]

Fold0Of(s) == [shape |-> s.shape, cells |-> ApplySym(FoldDecl(Identity(s.shape)), s.cells)]
SwapOf(s) == LET sh == <<s.shape[2], s.shape[1]>> IN
    [shape |-> sh, cells |-> [q \in 1..Elements(sh) |-> LET k == Unflat(sh, q - 1) IN CellAt(s, <<k[2], k[1]>>)]]
ScaleOf(s, c) == [shape |-> s.shape, cells |-> [q \in 1..Len(s.cells) |-> QMul(c, s.cells[q])]]
SetMonoOf(s, u, v) == [shape |-> s.shape,
                       cells |-> [q \in 1..Len(s.cells) |-> IF q = 1 THEN u ELSE IF q = Len(s.cells) THEN v ELSE s.cells[q]]]
MarginalOf(s, keep) ==     \* numeric marginal onto the axes in `keep' (a set)
    [shape |-> KeepShape(s.shape, (1..Len(s.shape)) \ keep),
     cells |-> ApplySym(MarginalizeDecl(Identity(s.shape), (1..Len(s.shape)) \ keep), s.cells)]

Init == /\ base \in StartSet /\ sp = base /\ factor = QOne /\ ops = <<>>

Can == Len(ops) < MaxOps
Fold0 == Can /\ sp' = Fold0Of(sp) /\ ops' = Append(ops, "fold0") /\ UNCHANGED <<base, factor>>
Swap == Can /\ Len(sp.shape) = 2 /\ sp' = SwapOf(sp) /\ ops' = Append(ops, "swap") /\ UNCHANGED <<base, factor>>
Scale(c) == Can /\ sp' = ScaleOf(sp, c) /\ factor' = QMul(factor, c) /\ ops' = Append(ops, "scale") /\ UNCHANGED base
SetMono(u, v) == Can /\ sp' = SetMonoOf(sp, u, v) /\ ops' = Append(ops, "setmono") /\ UNCHANGED <<base, factor>>

Next == Fold0 \/ Swap \/ (\E c \in ScaleFactors : Scale(c)) \/ (\E m \in MonoValues : SetMono(m[1], m[2]))
Spec == Init /\ [][Next]_vars

(******************************* the claims *******************************)
Insensitive(stat) ==      \* operations the statistic is claimed not to notice (scale: up to the factor)
    (IF stat \in {"pi", "theta", "s", "d_tajima", "pi_xy", "f2", "f3", "f4", "fst", "king", "r0", "r1"}
        \/ (AB_ClaimFuLiFoldInvariant /\ stat = "d_fu_li") THEN {"fold0"} ELSE {})
    \cup (IF stat \notin {"sum", "f2", "f3", "f4"} THEN {"setmono"} ELSE {})
    \cup (IF stat \in {"f2", "fst", "pi_xy", "king", "r0", "r1"} THEN {"swap"} ELSE {})
    \cup (IF stat \in {"f2", "f3", "f4", "fst", "king", "r0", "r1", "sum", "s", "pi", "pi_xy", "theta"} THEN {"scale"} ELSE {})

(* "all values of the monomorphic entries" includes the non-finite ones a masked spectrum carries (NaN, +-inf): the     *)
(* statistics that never look at the two corners are unchanged by them.  Fst is left out on purpose: it is defined on the *)
(* NORMALISED spectrum, and normalising divides by a total that is then not finite (as built; see DESIGN 9.3).           *)
SpecialInsensitive == {"s", "pi", "theta", "d_tajima", "d_fu_li", "pi_xy", "king", "r0", "r1"}

ScalesWithFactor(stat) == stat \in {"sum", "s", "pi", "pi_xy", "theta"}

Scaled(x, c) == IF x.class = "finite" THEN Fin(QMul(x.v, c)) ELSE x

Claims(stat) ==
    (\A i \in 1..Len(ops) : ops[i] \in Insensitive(stat)) /\ Admissible(stat, base.shape)

RelationsHold ==
    \A stat \in StatNames :
        Claims(stat) =>
            SStat(stat, sp) = (IF ScalesWithFactor(stat) THEN Scaled(SStat(stat, base), factor) ELSE SStat(stat, base))

(* f3 and f4 from f2 of the two-population marginals; when the spectrum is empty every term is 0/0 *)
F2of(s, a, b) == SF2(MarginalOf(s, {a, b}))
AllFinite(S) == \A x \in S : x.class = "finite"
FCombinations ==
    /\ Len(sp.shape) = 3 =>
         LET ab == F2of(sp, 1, 2) ac == F2of(sp, 1, 3) bc == F2of(sp, 2, 3) IN
         AllFinite({ab, ac, bc}) => SF3(sp) = Fin(QDiv(QSub(QAdd(ab.v, ac.v), bc.v), QI(2)))
    /\ Len(sp.shape) = 4 =>
         LET ad == F2of(sp, 1, 4) bc == F2of(sp, 2, 3) ac == F2of(sp, 1, 3) bd == F2of(sp, 2, 4) IN
         AllFinite({ad, bc, ac, bd}) => SF4(sp) = Fin(QDiv(QSub(QSub(QAdd(ad.v, bc.v), ac.v), bd.v), QI(2)))

Emit ==
    PrintT("REPLAY " \o ToJson([family |-> "statrel", shape |-> base.shape,
        base |-> [q \in 1..Len(base.cells) |-> QStr(base.cells[q])], ops |-> ops,
        final |-> [q \in 1..Len(sp.cells) |-> QStr(sp.cells[q])], final_shape |-> sp.shape,
        factor |-> QStr(factor),
        claims |-> {s \in StatNames : Claims(s)},
        scaled |-> {s \in StatNames : ScalesWithFactor(s)},
        mono_specials |-> {s \in SpecialInsensitive : Admissible(s, sp.shape)},
        stats |-> [s \in {x \in StatNames : Admissible(x, sp.shape)} |-> ValJson(SStat(s, sp))],
        marginal_f2 |-> IF Len(sp.shape) \in {3, 4}
                        THEN [p \in {<<a, b>> \in (1..Len(sp.shape)) \X (1..Len(sp.shape)) : a < b} |-> ValJson(F2of(sp, p[1], p[2]))]
                        ELSE <<>>]))
=============================================================================
