------------------------------- MODULE Stats -------------------------------
(***************************************************************************)
(* The 14 statistics of `sfs stat' (C06, C14), three ways:                 *)
(*   G*  on genotypes, straight from the definitions in the statement      *)
(*       (a call set = a sequence of sites, a site = one ALT count 0/1/2   *)
(*       per diploid individual, individuals grouped into populations);    *)
(*   S*  on a spectrum with exact rational cells, the way the tool         *)
(*       computes them;                                                    *)
(*   the published estimators (Watterson, Tajima, Fu and Li) with their    *)
(*       constants a_n, b_n, ... in module Q.                              *)
(* A value is a record [class |-> "finite", v |-> Q] or a class "nan" /    *)
(* "inf" / "-inf" where the definition divides by zero.  The two D         *)
(* statistics are quotients by a square root; they are carried as          *)
(* [class |-> "root", num |-> Q, var |-> Q] meaning num / sqrt(var), and   *)
(* the harness takes the one square root.                                  *)
(***************************************************************************)
EXTENDS Shapes, Q, TLC, FiniteSets

Fin(v) == [class |-> "finite", v |-> v]
Ratio(num, den) ==
    IF QIsZero(den)
    THEN [class |-> IF QIsZero(num) THEN "nan" ELSE IF QSign(num) > 0 THEN "inf" ELSE "-inf"]
    ELSE Fin(QDiv(num, den))
Root(num, var) == [class |-> "root", num |-> num, var |-> var]
NotDefined == [class |-> "undefined"]          \* statistic not applicable to this dimensionality / shape

StatNames == {"sum", "s", "pi", "theta", "d_tajima", "d_fu_li", "pi_xy", "f2", "fst", "king", "r0", "r1", "f3", "f4"}

(***************************** estimator constants *****************************)
A1(n) == QHarm(n - 1, 1)                 \* a_n  = sum_{i<n} 1/i
A2(n) == QHarm(n - 1, 2)                 \* b_n  = sum_{i<n} 1/i^2
Q2(a) == QMul(a, a)

(* Tajima (1989) *)
TajB1(n) == QMk(n + 1, 3 * (n - 1))
TajB2(n) == QMk(2 * (n * n + n + 3), 9 * n * (n - 1))
TajC1(n) == QSub(TajB1(n), QDiv(QOne, A1(n)))
TajC2(n) == QAdd(QSub(TajB2(n), QDiv(QMk(n + 2, n), A1(n))), QDiv(A2(n), Q2(A1(n))))
TajE1(n) == QDiv(TajC1(n), A1(n))
TajE2(n) == QDiv(TajC2(n), QAdd(Q2(A1(n)), A2(n)))

(* Fu and Li (1993) *)
FuLiC(n) == QDiv(QSub(QMul(QI(2 * n), A1(n)), QI(4 * (n - 1))), QI((n - 1) * (n - 2)))
FuLiV(n) == QAdd(QOne, QMul(QDiv(Q2(A1(n)), QAdd(A2(n), Q2(A1(n)))), QSub(FuLiC(n), QMk(n + 1, n - 1))))
FuLiU(n) == QSub(QSub(A1(n), QOne), FuLiV(n))

(****************************** spectrum level ******************************)
(* spectrum = [shape |-> sh, cells |-> sequence of Q over flat positions] *)
CellAt(sp, idx) == sp.cells[Flat(sp.shape, idx) + 1]
SSum(sp) == QSumSeq(sp.cells)
N1(sp) == sp.shape[1] - 1

(* one population *)
SSeg(sp) == QSumSeq([i \in 1..(N1(sp) - 1) |-> sp.cells[i + 1]])                  \* classes 1..n-1
(* any number of populations: everything except the all-zero and the all-maximum entry *)
SSegAll(sp) == QSub(SSum(sp), QAdd(sp.cells[1], sp.cells[Len(sp.cells)]))
SPi(sp) == LET n == N1(sp) IN
    QSumSeq([i \in 1..(n - 1) |-> QMul(QMk(2 * i * (n - i), n * (n - 1)), sp.cells[i + 1])])
STheta(sp) == QDiv(SSeg(sp), A1(N1(sp)))
STajimaD(sp) == LET n == N1(sp) s == SSeg(sp) IN
    Root(QSub(SPi(sp), STheta(sp)), QAdd(QMul(TajE1(n), s), QMul(TajE2(n), QMul(s, QSub(s, QOne)))))
SFuLiD(sp) == LET n == N1(sp) s == SSeg(sp) IN
    Root(QSub(s, QMul(A1(n), sp.cells[2])), QAdd(QMul(FuLiU(n), s), QMul(FuLiV(n), Q2(s))))

(* two populations *)
Freq(k, n) == QMk(k, n)
Over2(sp, F(_, _)) ==        \* sum over all cells of cell * F(k1, k2)
    QSumSeq([q \in 1..Elements(sp.shape) |->
        LET k == Unflat(sp.shape, q - 1) IN QMul(sp.cells[q], F(k[1], k[2]))])

SPiXY(sp) == LET n1 == sp.shape[1] - 1 n2 == sp.shape[2] - 1 IN
    Over2(sp, LAMBDA a, b : IF (a = 0 /\ b = 0) \/ (a = n1 /\ b = n2) THEN QZero
                            ELSE QMk(a * (n2 - b) + b * (n1 - a), n1 * n2))
SF2(sp) == LET n1 == sp.shape[1] - 1 n2 == sp.shape[2] - 1 IN
    Ratio(Over2(sp, LAMBDA a, b : Q2(QSub(Freq(a, n1), Freq(b, n2)))), SSum(sp))
SFst(sp) == LET n1 == sp.shape[1] - 1 n2 == sp.shape[2] - 1 IN
    Ratio(Over2(sp, LAMBDA a, b :
              IF (a = 0 /\ b = 0) \/ (a = n1 /\ b = n2) THEN QZero
              ELSE QSub(QSub(Q2(QSub(Freq(a, n1), Freq(b, n2))),
                             QDiv(QMul(Freq(a, n1), Freq(n1 - a, n1)), QI(n1 - 1))),
                        QDiv(QMul(Freq(b, n2), Freq(n2 - b, n2)), QI(n2 - 1)))),
          Over2(sp, LAMBDA a, b :
              IF (a = 0 /\ b = 0) \/ (a = n1 /\ b = n2) THEN QZero
              ELSE QAdd(QMul(Freq(a, n1), Freq(n2 - b, n2)), QMul(Freq(b, n2), Freq(n1 - a, n1)))))

C2(sp, a, b) == CellAt(sp, <<a, b>>)
SKing(sp) == Ratio(QSub(C2(sp, 1, 1), QMul(QI(2), QAdd(C2(sp, 0, 2), C2(sp, 2, 0)))),
                   QSumSeq(<<C2(sp, 0, 1), C2(sp, 1, 0), QMul(QI(2), C2(sp, 1, 1)), C2(sp, 1, 2), C2(sp, 2, 1)>>))
SR0(sp) == Ratio(QAdd(C2(sp, 0, 2), C2(sp, 2, 0)), C2(sp, 1, 1))
SR1(sp) == Ratio(C2(sp, 1, 1),
                 QSumSeq(<<C2(sp, 0, 1), C2(sp, 0, 2), C2(sp, 1, 0), C2(sp, 1, 2), C2(sp, 2, 0), C2(sp, 2, 1)>>))

(* three and four populations *)
OverAll(sp, F(_)) ==
    QSumSeq([q \in 1..Elements(sp.shape) |-> QMul(sp.cells[q], F(Unflat(sp.shape, q - 1)))])
Fr(sp, k, j) == Freq(k[j], sp.shape[j] - 1)
SF3(sp) == Ratio(OverAll(sp, LAMBDA k : QMul(QSub(Fr(sp, k, 1), Fr(sp, k, 2)), QSub(Fr(sp, k, 1), Fr(sp, k, 3)))), SSum(sp))
SF4(sp) == Ratio(OverAll(sp, LAMBDA k : QMul(QSub(Fr(sp, k, 1), Fr(sp, k, 2)), QSub(Fr(sp, k, 3), Fr(sp, k, 4)))), SSum(sp))

(* admissibility: which statistic is defined for which spectrum *)
Admissible(stat, sh) ==
    CASE stat \in {"sum"} -> TRUE
      [] stat = "s" -> \A j \in 1..Len(sh) : sh[j] >= 2          \* S: polymorphic in the whole sample, any number of populations
      [] stat \in {"pi", "theta", "d_tajima"} -> Len(sh) = 1 /\ sh[1] >= 3
      [] stat = "d_fu_li" -> Len(sh) = 1 /\ sh[1] >= 4
      [] stat \in {"pi_xy", "f2"} -> Len(sh) = 2 /\ sh[1] >= 2 /\ sh[2] >= 2
      [] stat = "fst" -> Len(sh) = 2 /\ sh[1] >= 3 /\ sh[2] >= 3
      [] stat \in {"king", "r0", "r1"} -> sh = <<3, 3>>
      [] stat = "f3" -> Len(sh) = 3 /\ \A j \in 1..3 : sh[j] >= 2
      [] stat = "f4" -> Len(sh) = 4 /\ \A j \in 1..4 : sh[j] >= 2

SStat(stat, sp) ==
    IF ~Admissible(stat, sp.shape) THEN NotDefined
    ELSE CASE stat = "sum" -> Fin(SSum(sp))
           [] stat = "s" -> Fin(SSegAll(sp))
           [] stat = "pi" -> Fin(SPi(sp))
           [] stat = "theta" -> Fin(STheta(sp))
           [] stat = "d_tajima" -> STajimaD(sp)
           [] stat = "d_fu_li" -> SFuLiD(sp)
           [] stat = "pi_xy" -> Fin(SPiXY(sp))
           [] stat = "f2" -> SF2(sp)
           [] stat = "fst" -> SFst(sp)
           [] stat = "king" -> SKing(sp)
           [] stat = "r0" -> SR0(sp)
           [] stat = "r1" -> SR1(sp)
           [] stat = "f3" -> SF3(sp)
           [] stat = "f4" -> SF4(sp)

(****************************** genotype level ******************************)
(* pops: sequence of population sizes (individuals); a site is a sequence over all individuals of 0/1/2, *)
(* population j owning the positions PopRange(pops, j)                                                   *)
PopStart(pops, j) == SeqSum(SubSeq(pops, 1, j - 1))
PopRange(pops, j) == (PopStart(pops, j) + 1)..(PopStart(pops, j) + pops[j])
NChrom(pops, j) == 2 * pops[j]
AltIn(pops, site, j) == SeqSum([i \in 1..pops[j] |-> site[PopStart(pops, j) + i]])
P(pops, site, j) == QMk(AltIn(pops, site, j), NChrom(pops, j))        \* sample allele frequency

SumSites(sites, F(_)) == QSumSeq([s \in 1..Len(sites) |-> F(sites[s])])
MeanSites(sites, F(_)) == Ratio(SumSites(sites, F), QI(Len(sites)))

GSum(pops, sites) == Fin(QI(Len(sites)))
(* polymorphic: the sample carries both alleles *)
TotalAlt(pops, site) == SeqSum([j \in 1..Len(pops) |-> AltIn(pops, site, j)])
TotalChrom(pops) == SeqSum([j \in 1..Len(pops) |-> NChrom(pops, j)])
GSeg(pops, sites) ==
    Fin(QI(Cardinality({s \in 1..Len(sites) : TotalAlt(pops, sites[s]) \notin {0, TotalChrom(pops)}})))
(* mean number of pairwise differences between the n sampled chromosomes: per site k(n-k) pairs differ of n(n-1)/2 *)
GPi(pops, sites) == LET n == NChrom(pops, 1) IN
    Fin(SumSites(sites, LAMBDA site : LET k == AltIn(pops, site, 1) IN QMk(2 * k * (n - k), n * (n - 1))))
GTheta(pops, sites) == Fin(QDiv(GSeg(pops, sites).v, A1(NChrom(pops, 1))))
(* between populations: a chromosome from each; they differ when exactly one carries ALT *)
GPiXY(pops, sites) == LET n1 == NChrom(pops, 1) n2 == NChrom(pops, 2) IN
    Fin(SumSites(sites, LAMBDA site :
        LET a == AltIn(pops, site, 1) b == AltIn(pops, site, 2)
        IN  QMk(a * (n2 - b) + b * (n1 - a), n1 * n2)))
GF2(pops, sites) == MeanSites(sites, LAMBDA site : Q2(QSub(P(pops, site, 1), P(pops, site, 2))))
GF3(pops, sites) == MeanSites(sites, LAMBDA site :
    QMul(QSub(P(pops, site, 1), P(pops, site, 2)), QSub(P(pops, site, 1), P(pops, site, 3))))
GF4(pops, sites) == MeanSites(sites, LAMBDA site :
    QMul(QSub(P(pops, site, 1), P(pops, site, 2)), QSub(P(pops, site, 3), P(pops, site, 4))))
(* Hudson's estimator (Bhatia et al. 2013): ratio of the summed per-site numerators and denominators *)
HudsonNum(pops, site) ==
    LET p1 == P(pops, site, 1) p2 == P(pops, site, 2) n1 == NChrom(pops, 1) n2 == NChrom(pops, 2)
    IN  QSub(QSub(Q2(QSub(p1, p2)), QDiv(QMul(p1, QSub(QOne, p1)), QI(n1 - 1))),
             QDiv(QMul(p2, QSub(QOne, p2)), QI(n2 - 1)))
HudsonDen(pops, site) ==
    LET p1 == P(pops, site, 1) p2 == P(pops, site, 2)
    IN  QAdd(QMul(p1, QSub(QOne, p2)), QMul(p2, QSub(QOne, p1)))
GFst(pops, sites) == Ratio(SumSites(sites, LAMBDA site : HudsonNum(pops, site)),
                           SumSites(sites, LAMBDA site : HudsonDen(pops, site)))
(* two individuals: counts of genotype pairs *)
Pairs(sites, a, b) == QI(Cardinality({s \in 1..Len(sites) : sites[s][1] = a /\ sites[s][2] = b}))
GR0(pops, sites) == Ratio(QAdd(Pairs(sites, 0, 2), Pairs(sites, 2, 0)), Pairs(sites, 1, 1))
GR1(pops, sites) == Ratio(Pairs(sites, 1, 1),
    QSumSeq(<<Pairs(sites, 0, 1), Pairs(sites, 0, 2), Pairs(sites, 1, 0), Pairs(sites, 1, 2), Pairs(sites, 2, 0), Pairs(sites, 2, 1)>>))
GKing(pops, sites) == Ratio(QSub(Pairs(sites, 1, 1), QMul(QI(2), QAdd(Pairs(sites, 0, 2), Pairs(sites, 2, 0)))),
    QSumSeq(<<Pairs(sites, 0, 1), Pairs(sites, 1, 0), QMul(QI(2), Pairs(sites, 1, 1)), Pairs(sites, 1, 2), Pairs(sites, 2, 1)>>))
(* published estimators evaluated on the genotype-level S, pi and singleton count *)
GTajimaD(pops, sites) == LET n == NChrom(pops, 1) s == GSeg(pops, sites).v IN
    Root(QSub(GPi(pops, sites).v, QDiv(s, A1(n))), QAdd(QMul(TajE1(n), s), QMul(TajE2(n), QMul(s, QSub(s, QOne)))))
Singletons(pops, sites) == QI(Cardinality({s \in 1..Len(sites) : AltIn(pops, sites[s], 1) = 1}))
GFuLiD(pops, sites) == LET n == NChrom(pops, 1) s == GSeg(pops, sites).v IN
    Root(QSub(s, QMul(A1(n), Singletons(pops, sites))), QAdd(QMul(FuLiU(n), s), QMul(FuLiV(n), Q2(s))))

GShape(pops) == [j \in 1..Len(pops) |-> 2 * pops[j] + 1]

GStat(stat, pops, sites) ==
    IF ~Admissible(stat, GShape(pops)) THEN NotDefined
    ELSE CASE stat = "sum" -> GSum(pops, sites)
           [] stat = "s" -> GSeg(pops, sites)
           [] stat = "pi" -> GPi(pops, sites)
           [] stat = "theta" -> GTheta(pops, sites)
           [] stat = "d_tajima" -> GTajimaD(pops, sites)
           [] stat = "d_fu_li" -> GFuLiD(pops, sites)
           [] stat = "pi_xy" -> GPiXY(pops, sites)
           [] stat = "f2" -> GF2(pops, sites)
           [] stat = "fst" -> GFst(pops, sites)
           [] stat = "king" -> GKing(pops, sites)
           [] stat = "r0" -> GR0(pops, sites)
           [] stat = "r1" -> GR1(pops, sites)
           [] stat = "f3" -> GF3(pops, sites)
           [] stat = "f4" -> GF4(pops, sites)

(* the spectrum `create' builds from complete data: one count per site at its per-population ALT index *)
SpectrumOf(pops, sites) ==
    LET sh == GShape(pops) IN
    [shape |-> sh,
     cells |-> [q \in 1..Elements(sh) |->
        QI(Cardinality({s \in 1..Len(sites) : [j \in 1..Len(pops) |-> AltIn(pops, sites[s], j)] = Unflat(sh, q - 1)}))]]

(****************************** JSON boundary ******************************)
ValJson(x) ==
    CASE x.class = "finite" -> [class |-> "finite", v |-> QSci(x.v, 25)]
      [] x.class = "root" -> [class |-> "root", num |-> QSci(x.num, 25), var |-> QSci(x.var, 25)]
      [] OTHER -> [class |-> x.class]
=============================================================================
