---------------------------- MODULE SpectrumLarge ----------------------------
(***************************************************************************)
(* The array operators on spectra with MORE THAN 2^16 CELLS (C04, C05 and  *)
(* the output of C01/C13): the symbolic modules (Marginalize, Fold, View)  *)
(* are exhaustive over small shapes; an implementation is free to switch   *)
(* to a blocked, reordered or vectorised code path above some size, and    *)
(* that path must compute the same function.                               *)
(*                                                                         *)
(* Here the spectrum is CONCRETE: cell p (flat, 0-based) holds Pattern(p),  *)
(* a small natural number, so every expected entry is an integer computed  *)
(* by TLC straight from the declarative definitions:                       *)
(*   marginalize(R)  entry at the kept coordinates = sum over all          *)
(*                   assignments of the removed axes                       *)
(*   fold            entry k with |k| < T/2: x[k] + x[mirror k];           *)
(*                   |k| = T/2: (x[k] + x[mirror k]) / 2; else the fill    *)
(*                   (emitted doubled, so it stays an integer)             *)
(* One behaviour = one operation applied in steps of one output row, so    *)
(* that TLC reports progress and the state stays small; the terminal state *)
(* is emitted for the replay, which builds the same spectrum from the same *)
(* Pattern and applies the real operator (library and binary).             *)
(***************************************************************************)
EXTENDS Shapes, TLC, Json

CONSTANTS Scenarios      \* set of [op |-> "marg", shape, remove (set of 1-based axes)] \cup [op |-> "fold", shape]

VARIABLES sc, out, row, mass
vars == <<sc, out, row, mass>>

Pattern(p) == ((p * 7 + 3) % 11) + (IF p % 13 = 0 THEN 5 ELSE 0)

(******************************* marginalize *******************************)
Kept(sh, R) == SelectSeq([a \in 1..Len(sh) |-> a], LAMBDA a : a \notin R)
Removed(sh, R) == SelectSeq([a \in 1..Len(sh) |-> a], LAMBDA a : a \in R)
SubShape(sh, axes) == [j \in 1..Len(axes) |-> sh[axes[j]]]

(* flat position in the FULL array of the cell whose coordinates on the axes `axes' are `coords' and 0 elsewhere *)
RECURSIVE PartialFlat(_, _, _, _)
PartialFlat(st, axes, coords, j) == IF j > Len(axes) THEN 0 ELSE st[axes[j]] * coords[j] + PartialFlat(st, axes, coords, j + 1)

(* the declarative entry: sum over ALL assignments of the removed axes.  base = contribution of the kept coordinates, *)
(* offs[r] = contribution of the r-th assignment of the removed axes (row-major over the removed axes)                *)
(* (divide and conquer: TLC evaluates deep linear recursion very slowly) *)
RECURSIVE SumOver(_, _, _, _)
SumOver(base, offs, lo, hi) ==
    IF lo > hi THEN 0
    ELSE IF lo = hi THEN Pattern(base + offs[lo])
    ELSE LET mid == (lo + hi) \div 2 IN SumOver(base, offs, lo, mid) + SumOver(base, offs, mid + 1, hi)

(********************************** fold **********************************)
(* doubled entry of the folded spectrum at flat position q; -1 stands for the fill *)
FoldCell2(sh, q) ==
    LET k == Unflat(sh, q)
        m == Flat(sh, Mirror(sh, k))
        c2 == 2 * IndexSum(k)
        T == MaxTotal(sh)
    IN  IF c2 < T THEN 2 * (Pattern(q) + Pattern(m))
        ELSE IF c2 = T THEN Pattern(q) + Pattern(m)
        ELSE -1

(******************************** machine ********************************)
OutShape == IF sc.op = "marg" THEN SubShape(sc.shape, Kept(sc.shape, sc.remove)) ELSE sc.shape
(* the output is produced in blocks of RowLen cells *)
RowLen == 4096
Rows == (Elements(OutShape) + RowLen - 1) \div RowLen

RECURSIVE BlockSum(_, _, _)
BlockSum(b, lo, hi) ==
    IF lo > hi THEN 0
    ELSE IF lo = hi THEN (IF b[lo] < 0 THEN 0 ELSE b[lo])
    ELSE LET mid == (lo + hi) \div 2 IN BlockSum(b, lo, mid) + BlockSum(b, mid + 1, hi)

Init == sc \in Scenarios /\ out = <<>> /\ row = 0 /\ mass = 0

MargBlock(lo, hi) ==
    LET sh == sc.shape
        st == Strides(sh)
        kept == Kept(sh, sc.remove)
        rem == Removed(sh, sc.remove)
        remShape == SubShape(sh, rem)
        nrem == Elements(remShape)
        offs == TLCEval([r \in 0..(nrem - 1) |-> PartialFlat(st, rem, Unflat(remShape, r), 1)])
    IN  [j \in 1..(hi - lo) |->
            SumOver(PartialFlat(st, kept, Unflat(OutShape, lo + j - 1), 1), offs, 0, nrem - 1)]

FoldBlock(lo, hi) == [j \in 1..(hi - lo) |-> FoldCell2(sc.shape, lo + j - 1)]

Step ==
    /\ row < Rows
    /\ LET lo == row * RowLen
           hi == IF lo + RowLen > Elements(OutShape) THEN Elements(OutShape) ELSE lo + RowLen
           block == TLCEval(IF sc.op = "marg" THEN MargBlock(lo, hi) ELSE FoldBlock(lo, hi))
       IN  /\ out' = out \o block
           /\ mass' = mass + BlockSum(block, 1, Len(block))
    /\ row' = row + 1
    /\ UNCHANGED sc

Next == Step
Spec == Init /\ [][Next]_vars

Done == row = Rows

(******************************* properties *******************************)
(* total of the input: Pattern has period 143 = 11 * 13 *)
RECURSIVE PatternSum(_, _)
PatternSum(n, acc) == IF n = 0 THEN acc ELSE PatternSum(n - 1, acc + Pattern(n - 1))
PatternTotal(n) == (n \div 143) * PatternSum(143, 0) + PatternSum(n % 143, 0)

(* C04: marginalization preserves the total; the output has one cell per assignment of the kept axes *)
MargMass == (Done /\ sc.op = "marg") => (Len(out) = Elements(OutShape) /\ mass = PatternTotal(Elements(sc.shape)))
(* C05: folding with fill 0 preserves the total (entries are emitted doubled) *)
FoldMass == (Done /\ sc.op = "fold") => mass = 2 * PatternTotal(Elements(sc.shape))

Emit ==
    Done => PrintT("REPLAY " \o ToJson([family |-> "large", op |-> sc.op, shape |-> sc.shape,
                                        remove |-> IF sc.op = "marg" THEN {a - 1 : a \in sc.remove} ELSE {},
                                        out_shape |-> OutShape, out |-> out]))
=============================================================================
