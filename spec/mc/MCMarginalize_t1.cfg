SPECIFICATION Spec
CONSTANTS
  MaxDims = 5
  Lens = {1, 2, 3}
  MaxProbeLen = 2
  AB_NoShift = FALSE
  ShapeSet <- MCShapeSet
INVARIANTS
  EqualsDeclarative
  ShapeIsSurviving
  MassInvariant
  AsCodedAgrees
  KeepEqualsRemoveComplement
  ProbeSound
  Emit
CHECK_DEADLOCK FALSE
