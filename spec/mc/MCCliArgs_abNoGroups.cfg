SPECIFICATION Spec
CONSTANTS
  Tools = {"create", "view", "fold", "stat"}
  MaxOccurrences = 2
  StdinKinds = {"tty", "data", "null"}
  AB_NoGroups = TRUE
  Table <- MCTable
  Malformed <- MCMalformed
INVARIANTS
  NoPanic
  OrderFree
  ExclusiveGroupsRespected
  Emit
CHECK_DEADLOCK FALSE
