SPECIFICATION Spec
CONSTANTS
  MaxFaults = 3
  ShapeSet <- MCShapes
INVARIANTS
  IntactAccepted
  SingleTokenFaultRejected
  Emit
CHECK_DEADLOCK FALSE
