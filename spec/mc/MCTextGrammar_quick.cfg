SPECIFICATION Spec
CONSTANTS
  AB_BlankOnly = FALSE
  Scenarios <- MCQuick
INVARIANTS
  CanonicalAccepted
  AcceptedMeansCountMatches
  WhitespaceInsensitive
  Emit
CHECK_DEADLOCK FALSE
