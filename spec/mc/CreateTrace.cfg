SPECIFICATION TraceSpec
INVARIANTS
  Conservation
  NoPartialOutput
  StrictSkipsNothing
POSTCONDITION TraceAccepted
CHECK_DEADLOCK FALSE
