SPECIFICATION Spec
CONSTANTS
  MaxDims = 3
  Lens = {1, 2}
  Past = 3
  AB_ViewRestart = FALSE
  AB_AxisLenConst = FALSE
  AB_GetAxisOffByOne = TRUE
  NthArgs = {0, 1, 2, 9}
  NthBudget = 1
  NthMaxCells = 9
  CloneBudget = 1
  AB_CloneResets = FALSE
  AB_NthUnclamped = FALSE
  AB_View0Dim = FALSE
  ShapeSet <- MCShapeSet
INVARIANTS
  YieldsExpectedPrefix
  Fused
  LenExact
  NoPanic
  Bijection
  ViewsPartition
  TableNoPanic
  Emit
CHECK_DEADLOCK FALSE
