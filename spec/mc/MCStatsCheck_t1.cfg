SPECIFICATION Spec
CONSTANTS
  AB_PiDenominator = FALSE
  EstimatorNs = {3, 4, 5, 6, 7, 8, 9, 10, 11, 12, 20, 63, 64, 100, 169, 170, 171, 172, 250, 400}
  BigShapes <- MCBigAll
  PopStructs <- MCPopsAll
  MaxSitesFor <- MCMaxT
INVARIANTS
  SpectrumMatchesGenotypes
  EstimatorSane
  Emit
CHECK_DEADLOCK FALSE
