SPECIFICATION Spec
CONSTANTS
  Scenarios <- MCScenariosQuick
INVARIANTS
  WellFormed
  Conservation
  NonNegative
  RowsAreDistributions
  SeparatesIntoRows
  Emit
CHECK_DEADLOCK FALSE
