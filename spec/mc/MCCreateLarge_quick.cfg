SPECIFICATION Spec
CONSTANTS
  Scenarios <- MCScenariosQuick
INVARIANTS
  WellFormed
  Conservation
  NonNegative
  Emit
CHECK_DEADLOCK FALSE
