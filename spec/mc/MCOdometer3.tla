---------------------------- MODULE MCOdometer3 ----------------------------
(* Odometer3.tla with concrete large constants: the view of a four-axis array with axis Removed taken out at position Pos. *)
EXTENDS Odometer3, TLC, Json, Sequences
CONSTANTS N1, N2, N3, N4, Removed, Pos
VARIABLES hash, nones, calls
mvars == <<c1, c2, c3, offset, index, last, innerNone, hash, nones, calls>>
NN == <<N1, N2, N3, N4>>
Kept == IF Removed = 1 THEN <<2, 3, 4>> ELSE IF Removed = 2 THEN <<1, 3, 4>> ELSE IF Removed = 3 THEN <<1, 2, 4>> ELSE <<1, 2, 3>>
StrideOf(a) == IF a = 1 THEN N2 * N3 * N4 ELSE IF a = 2 THEN N3 * N4 ELSE IF a = 3 THEN N4 ELSE 1
MCL1 == NN[Kept[1]]
MCL2 == NN[Kept[2]]
MCL3 == NN[Kept[3]]
MCS1 == StrideOf(Kept[1])
MCS2 == StrideOf(Kept[2])
MCS3 == StrideOf(Kept[3])
MCInit == OInit /\ hash = 0 /\ nones = 0 /\ calls = 0
MCNext == /\ nones < 3
          /\ ONext
          /\ calls' = calls + 1
          /\ nones' = IF last' = -1 THEN nones + 1 ELSE nones
          /\ hash' = (hash * 31 + last' + 7) % 1000003
MCSpec == MCInit /\ [][MCNext]_mvars
Fused == nones > 0 => (index = Cells /\ last = -1)
NoInnerNone == innerNone = FALSE
Emit == nones = 3 =>
    PrintT("REPLAY " \o ToJson([family |-> "array", shape |-> NN,
                                obj |-> [kind |-> "odometer", axis |-> Removed - 1, pos |-> Pos],
                                h |-> <<>>, calls |-> calls, yielded |-> index, hash |-> hash]))
=============================================================================
