SPECIFICATION Spec
CONSTANTS
  AB_SortColumns = TRUE
  Delimiters = {",", ";"}
  Spectra <- MCSpectra
  StatSeqs <- MCStatSeqs
  PrecisionSeqs <- MCPrecs
INVARIANTS
  RowMatchesRequest
  NoRowOnError
  Emit
CHECK_DEADLOCK FALSE
