SPECIFICATION Spec
CONSTANTS
  AB_SortColumns = TRUE
  Delimiters = {",", ";"}
  Spectra <- MCSpectra
  StatSeqs <- MCStatSeqs
  PrecisionSeqs <- MCPrecs
INVARIANTS
  RowMatchesRequest
  NothingWrittenOnError
  Emit
CHECK_DEADLOCK FALSE
