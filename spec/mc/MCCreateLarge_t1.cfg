SPECIFICATION Spec
CONSTANTS
  Scenarios <- MCScenarios
INVARIANTS
  WellFormed
  Conservation
  NonNegative
  RowsAreDistributions
  SeparatesIntoRows
  Emit
CHECK_DEADLOCK FALSE
