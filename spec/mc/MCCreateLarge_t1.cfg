SPECIFICATION Spec
CONSTANTS
  Scenarios <- MCScenarios
INVARIANTS
  WellFormed
  Conservation
  NonNegative
  Emit
CHECK_DEADLOCK FALSE
