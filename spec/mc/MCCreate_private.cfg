SPECIFICATION Spec
CONSTANTS
  AB_SumRule = FALSE
  ProjMode = "both"
  StrictSet = {FALSE}
  ResetOn = TRUE
  ScratchResetOn = TRUE
  ColumnOrders <- Orders3
  ListSet <- ListsSubset
  RecSeqSet <- MCSeq_private
INVARIANTS
  Conservation
  FinalIsSumOfContributions
  FailsWhereExpected
  NoPartialOutput
  ExpectedOutcomeReached
  UnselectedIrrelevant
  PerRecordContribution
  Emit
CHECK_DEADLOCK FALSE
