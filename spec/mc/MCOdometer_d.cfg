SPECIFICATION MCSpec
CONSTANTS
  N1 = 1
  N2 = 200
  N3 = 1
  Removed = 1
  Pos = 0
  AB_NoBackstride = FALSE
  L1 <- MCL1
  L2 <- MCL2
  S1 <- MCS1
  S2 <- MCS2
INVARIANTS
  IndInv
  Fused
  NoInnerNone
  Emit
CHECK_DEADLOCK FALSE
