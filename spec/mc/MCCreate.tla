------------------------------ MODULE MCCreate ------------------------------
EXTENDS Create

E(s, p) == [s |-> s, p |-> p]
U == Unnamed

\* sample names that are prefixes of one another (s1 / s10 / s11): name matching must be exact
S3 == {"s1", "s10", "s2"}
S4 == {"s1", "s10", "s2", "s11"}

\* call alphabets
A5 == {G2(0, 0, "/"), G2(0, 1, "|"), G2(1, 1, "/"), G2(Dot, Dot, "/"), G2(0, 2, "/")}
A8 == {G2(0, 0, "/"), G2(0, 1, "|"), G2(1, 0, "|"), G2(1, 1, "/"), G2(Dot, Dot, "/"), G2(Dot, 1, "/"),
       G2(1, 2, "/"), G2(0, 2, "/")}
A9 == A8 \cup {G1(0)}

Rows(S, A) == {[gt |-> f, bad |-> FALSE] : f \in [S -> A]}

\* sample lists over three input columns: 1..3 populations, subsets, named/unnamed mixes, orders
Lists3 == {AllMarker,
           <<E("s1", U)>>, <<E("s2", "A")>>,
           <<E("s1", U), E("s10", U)>>,
           <<E("s1", "A"), E("s10", "B")>>, <<E("s10", "B"), E("s1", "A")>>,
           <<E("s1", "A"), E("s10", "A"), E("s2", "B")>>,
           <<E("s1", "A"), E("s2", "B"), E("s10", "A")>>,
           <<E("s2", "B"), E("s1", U), E("s10", "B")>>,
           <<E("s1", "A"), E("s10", "B"), E("s2", "C")>>,
           <<E("s1", U), E("s10", "B"), E("s2", U)>>,
           \* an explicitly empty label next to unlabelled samples: two populations, not one
           <<E("s1", ""), E("s10", U), E("s2", "")>>}
Lists3small == {AllMarker, <<E("s1", "A"), E("s10", "A"), E("s2", "B")>>, <<E("s10", "B"), E("s1", U)>>}

\* representative record classes for histories (three columns a b c)
Row3(x, y, z) == [gt |-> [s \in S3 |-> IF s = "s1" THEN x ELSE IF s = "s10" THEN y ELSE z], bad |-> FALSE]
HOM0 == G2(0, 0, "/")
HET  == G2(0, 1, "|")
HOM1 == G2(1, 1, "/")
MISS == G2(Dot, Dot, "/")
MULT == G2(1, 2, "/")
HistoryRows == {Row3(HET, HOM1, HET),      \* complete, polymorphic
                Row3(HOM0, HOM0, HOM0),    \* complete, monomorphic
                Row3(MISS, HOM1, HET),     \* one sample of the first population missing
                Row3(HET, HET, MISS),      \* the last column missing
                Row3(MULT, HOM0, HOM1),    \* multiallelic
                Row3(MISS, MISS, MISS)}    \* everything missing
FaultRows == {Row3(G1(1), HET, HET), Row3(HET, HET, G3(0, 1, 1)), [Row3(HET, HET, HET) EXCEPT !.bad = TRUE],
              Row3(MISS, G1(1), HET), Row3(MULT, HOM0, G1(0))}     \* a skippable call BEFORE the ploidy error

Orders3 == {<<"s1", "s10", "s2">>}
AllOrders3 == {<<"s1", "s10", "s2">>, <<"s1", "s2", "s10">>, <<"s10", "s1", "s2">>, <<"s10", "s2", "s1">>, <<"s2", "s1", "s10">>, <<"s2", "s10", "s1">>}

SeqsUpTo(R, n) == UNION {[1..k -> R] : k \in 0..n}

\* C01/C02: every row over the alphabet, one record
MCSeq_single5 == SeqsUpTo(Rows(S3, A5), 1)
MCSeq_single9 == SeqsUpTo(Rows(S3, A9), 1)
\* C10/C11: histories over record classes, with and without faults
QuickFaultRows == {Row3(G1(1), HET, HET), [Row3(HET, HET, HET) EXCEPT !.bad = TRUE], Row3(MISS, HET, G1(1))}
WithPos(row, p) == [gt |-> row.gt, bad |-> row.bad, pos |-> p]
\* two different records at the SAME position (split multiallelic site / same position on the next contig)
SamePosRows == {WithPos(Row3(HOM1, HET, HOM0), 7), WithPos(Row3(HOM0, HOM0, HET), 7)}
\* complete / one sample missing / multiallelic / EVERY selected sample missing (nothing is counted at all)
QuickHistoryRows == {Row3(HET, HOM1, HET), Row3(MISS, HOM1, HET), Row3(MISS, MISS, MISS), Row3(MULT, HOM0, HOM1)} \cup SamePosRows
MCSeq_hist_quick == SeqsUpTo(QuickHistoryRows \cup QuickFaultRows, 3)
MCSeq_refine == SeqsUpTo(QuickHistoryRows \cup QuickFaultRows, 2)
MCSeq_hist3 == SeqsUpTo(HistoryRows \cup FaultRows \cup SamePosRows, 3)
MCSeq_hist4 == SeqsUpTo(QuickHistoryRows \cup {Row3(G1(1), HET, HET)}, 4)
\* records WITHOUT the GT key (FORMAT = DP) between ordinary ones, at every position of the history
NoGtRow == [gt |-> Row3(HET, HOM1, HET).gt, bad |-> FALSE, fmt |-> "nogt"]
MCSeq_fmt == SeqsUpTo({Row3(HET, HOM1, HET), Row3(HOM0, HET, HOM1), NoGtRow, Row3(MISS, HOM1, HET)}, 3)
\* records with the SAME allele counts per population but different numbers of called chromosomes, distributed differently over
\* the populations (and one complete record): whatever is remembered from one projected record must not be reused for the next
\* ... and records whose allele COUNTS equal the called TOTALS of another one (2 and 2, or 4)
CacheRows == {Row3(MISS, HET, HOM0), Row3(HET, HOM0, MISS), Row3(HOM0, HET, MISS), Row3(HET, MISS, HOM0), Row3(HET, HOM0, HOM0),
              Row3(HOM1, HOM0, HOM1), Row3(HOM1, HOM1, HOM0)}
MCSeq_cache == SeqsUpTo(CacheRows, 2) \cup {<<x, Row3(HET, HOM0, HOM0), y>> : x \in CacheRows, y \in CacheRows}
ListsTwoPop == {<<E("s1", "A"), E("s10", "A"), E("s2", "B")>>, <<E("s1", "A"), E("s10", "B"), E("s2", "B")>>, AllMarker}
\* sample names that look like something else to a careless parser: a leading '#' (a comment?), a name with a blank
SH == {"s1", "#s2", "s 3"}
RowH(x, y, z) == [gt |-> [s \in SH |-> IF s = "s1" THEN x ELSE IF s = "#s2" THEN y ELSE z], bad |-> FALSE]
OrdersHash == {<<"s1", "#s2", "s 3">>, <<"#s2", "s 3", "s1">>}
ListsHash == {AllMarker, <<E("s1", "A"), E("#s2", "B"), E("s 3", "A")>>, <<E("#s2", U)>>, <<E("#s2", "A"), E("s1", "A")>>,
              <<E("s 3", "B"), E("#s2", "B"), E("s1", U)>>}
MCSeq_names == {<<RowH(HET, HOM0, HOM0), RowH(HOM1, HET, HOM0), RowH(HOM1, MISS, HET)>>, <<RowH(HOM0, HOM1, MISS)>>}
\* ploidy errors that carry no called allele at all (././. and the like) are errors like any other, wherever they stand
NoAlleleFaults == {Row3(HET, HET, G3(Dot, Dot, Dot)), Row3(G3(Dot, Dot, Dot), HOM1, HET), Row3(MISS, [a |-> <<Dot, Dot, Dot, Dot>>, s |-> <<"/", "/", "/">>], HET)}
\* several SKIPPED records at one and the same position (a split multiallelic site): each of them is a record of its own
SamePosSkipped == {WithPos(Row3(MISS, HOM1, HET), 7), WithPos(Row3(MULT, HOM0, HOM1), 7), WithPos(Row3(HET, HOM1, MISS), 7), WithPos(Row3(HET, HOM1, HET), 7)}
MCSeq_samepos == SeqsUpTo(SamePosSkipped, 3)
MCSeq_fault2 == SeqsUpTo({Row3(HET, HOM1, HET), Row3(MISS, HOM1, HET)} \cup NoAlleleFaults, 2)
\* records at which NO selected sample is called while an unselected one is ("private to another cohort"), next to complete ones
PrivateRows == {Row3(MISS, MISS, HET), Row3(MULT, MISS, HOM1), Row3(HET, HOM1, HET), Row3(HOM0, HET, HOM0), Row3(MISS, MISS, MISS)}
MCSeq_private == SeqsUpTo(PrivateRows, 3)
ListsSubset == {<<E("s1", U), E("s10", U)>>, <<E("s10", "B"), E("s1", U)>>}
MCSeq_nofault3 == SeqsUpTo(HistoryRows, 3)
MCSeq_nofault2 == SeqsUpTo(HistoryRows, 2)

\* C08: every call string of ploidy 1..3 over alleles . 0 1 2 3, as first / middle / last record,
\* in the selected column a or in the unselected column b
S2 == {"s1", "s10"}
Orders2 == {<<"s1", "s10">>}
ListA == {<<E("s1", U)>>}
AllCalls == Calls({1, 2, 3}, {Dot, 0, 1, 2, 3})
SmallCalls == Calls({1, 2, 3}, {Dot, 0, 1, 2})
Row2(x, y) == [gt |-> [s \in S2 |-> IF s = "s1" THEN x ELSE y], bad |-> FALSE]
Benign == Row2(HET, HOM1)
ProbeSeqs(C) ==
    {[r \in 1..3 |-> IF r = p THEN (IF col = "s1" THEN Row2(g, HOM1) ELSE Row2(HET, g)) ELSE Benign]
        : g \in C, p \in 1..3, col \in S2}
\* both columns selected: the other selected sample is missing / multiallelic at the probed record, in the column BEFORE
\* or AFTER the probed call
ListAB == {<<E("s1", U), E("s10", U)>>}
ProbeSeqsBoth(C) ==
    {[r \in 1..2 |-> IF r = p THEN (IF col = "s1" THEN Row2(g, o) ELSE Row2(o, g)) ELSE Benign]
        : g \in C, p \in 1..2, col \in S2, o \in {MISS, MULT}}
\* calls that refer to the second or third ALT allele in records that list only ONE ALT allele
HighCalls == {G2(0, 2, "/"), G2(2, 2, "/"), G2(1, 2, "/"), G2(2, 1, "|"), G2(3, 3, "|"), G2(0, 3, "/"), G2(Dot, 2, "/"), G1(2), G3(0, 1, 2)}
Row2s(x, y) == [gt |-> [s \in S2 |-> IF s = "s1" THEN x ELSE y], bad |-> FALSE, alt |-> "short"]
MCSeq_alt == {<<Row2s(g, HOM1), Benign>> : g \in HighCalls} \cup {<<Benign, Row2s(HET, g)>> : g \in HighCalls}
MCSeq_gt2_small == ProbeSeqsBoth(SmallCalls)
MCSeq_gt2_all == ProbeSeqsBoth(AllCalls)
MCSeq_gt_all == ProbeSeqs(AllCalls)
MCSeq_gt_small == ProbeSeqs(SmallCalls)
ASSUME AB_SumRule \/ ClassifyLaws(AllCalls)

\* C09: every list of up to three distinct samples with labels A, B or none; unknown sample; empty list
Lab == {"A", "B", U}
DistinctSeqs(S, n) == {q \in [1..n -> S] : \A x, y \in 1..n : x # y => q[x] # q[y]}
ListsOver(S) == UNION {{[k \in 1..n |-> E(q[k], l[k])] : q \in DistinctSeqs(S, n), l \in [1..n -> Lab]} : n \in 1..3}
\* labels containing blanks, two of them sharing their first word (the two list syntaxes must agree on them)
SpacedLists == {<<E("s1", "East Africa"), E("s10", "East Asia"), E("s2", "East Africa")>>,
                <<E("s10", "East Asia"), E("s1", "East Africa")>>, <<E("s1", "x y"), E("s2", U), E("s10", "x  y")>>}
\* names that equal an input sample only after trimming blanks are ABSENT samples
PaddedLists == {<<E("s1", "A"), E(" s2", "A")>>, <<E("s2 ", U)>>, <<E("s1", "A"), E("s10 ", "B")>>}
\* an explicitly EMPTY label (`-s s1=`, or `s1<TAB>` in a file) names a population of its own, distinct from "no label"
\* ... and so does a label that happens to be spelled like the way the tool prints the unnamed population
EmptyLabelLists == {<<E("s1", ""), E("s10", U)>>, <<E("s1", U), E("s10", "")>>, <<E("s1", ""), E("s10", "B"), E("s2", U)>>,
                    <<E("s1", ""), E("s10", "")>>, <<E("s2", U), E("s1", ""), E("s10", U)>>,
                    <<E("s1", U), E("s10", "[unnamed]"), E("s2", "[unnamed]")>>, <<E("s1", "[unnamed]"), E("s10", U)>>,
                    <<E("s1", "unnamed"), E("s10", U), E("s2", "Unnamed")>>,
                    \* a label may contain the character that separates sample from label: everything after the FIRST '=' is label
                    <<E("s1", "deme=1"), E("s10", "deme=2"), E("s2", "deme=1")>>, <<E("s10", "="), E("s1", U)>>}
MCLists_perm == ListsOver(S3) \cup SpacedLists \cup PaddedLists \cup EmptyLabelLists \cup {AllMarker, <<>>, <<E("s1", "A"), E("z", "A")>>, <<E("z", U)>>}
MCLists_perm_quick == {l \in ListsOver(S3) : Len(l) >= 2 /\ l[1].s # "s2"} \cup SpacedLists \cup PaddedLists \cup EmptyLabelLists \cup {AllMarker, <<>>, <<E("s1", "A"), E("z", "A")>>}
\* three asymmetric records so that every permutation is visible in the result
MCSeq_perm == {<<Row3(HET, HOM0, HOM0), Row3(HOM1, HET, HOM0), Row3(HOM1, HOM1, HET)>>,
               \* ... and a record at which sample c is haploid and b missing: matters exactly when they are listed
               <<Row3(HET, HOM0, HOM0), Row3(HOM1, MISS, G1(1)), Row3(HOM1, HOM1, HET)>>}
\* C12: four populations (hash-order dependence would show), two column orders, fixed asymmetric records
Row4(w, x, y, z) == [gt |-> [s \in S4 |-> IF s = "s1" THEN w ELSE IF s = "s10" THEN x ELSE IF s = "s2" THEN y ELSE z], bad |-> FALSE]
NoGt4 == [gt |-> Row4(HET, HOM1, HET, HOM0).gt, bad |-> FALSE, fmt |-> "nogt"]
Lists4 == {<<E("s1", "A"), E("s10", "B"), E("s2", "C"), E("s11", "D")>>, <<E("s11", "D"), E("s10", "B"), E("s1", "A"), E("s2", "C")>>,
           <<E("s1", "A"), E("s10", "A"), E("s2", "B"), E("s11", U)>>, AllMarker}
Orders4 == {<<"s1", "s10", "s2", "s11">>, <<"s2", "s1", "s11", "s10">>}
MCSeq_c12 == {<<Row4(HET, HOM0, HOM0, HOM1), Row4(HOM1, HET, HOM0, HOM0), Row4(HOM1, HOM1, HET, MISS),
               Row4(HOM0, HOM0, MULT, HET), Row4(HET, HET, HET, HET)>>,
              <<Row4(HET, HOM1, HOM0, HOM0), Row4(HOM0, HOM0, HOM0, G1(1))>>,
              \* the FIRST record has a FORMAT column without GT, the later ones have genotypes (and the other way round): what one
              \* record carries says nothing about the next, in every container alike
              <<NoGt4, Row4(HET, HOM0, HOM0, HOM1), Row4(HOM1, HET, HOM0, HOM0)>>,
              <<Row4(HOM1, HET, HOM0, HOM0), NoGt4, Row4(HET, HOM0, HOM0, HOM1)>>,
              <<>>}
=============================================================================
