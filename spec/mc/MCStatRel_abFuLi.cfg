SPECIFICATION Spec
CONSTANTS
  MaxOps = 2
  AB_ClaimFuLiFoldInvariant = TRUE
  StartSet <- MCStartQuick
  ScaleFactors <- MCScale
  MonoValues <- MCMono
INVARIANTS
  RelationsHold
  FCombinations
  Emit
CHECK_DEADLOCK FALSE
