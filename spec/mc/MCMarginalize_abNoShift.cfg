SPECIFICATION Spec
CONSTANTS
  MaxDims = 3
  Lens = {2, 3}
  MaxProbeLen = 2
  AB_NoShift = TRUE
  ShapeSet <- MCShapeSet
INVARIANTS
  EqualsDeclarative
  ShapeIsSurviving
  MassInvariant
  AsCodedAgrees
  KeepEqualsRemoveComplement
  ProbeSound
  Emit
CHECK_DEADLOCK FALSE
