------------------------------ MODULE MCCliArgs ------------------------------
EXTENDS CliArgs

O(n, k, g, c) == [name |-> n, kind |-> k, group |-> g, conflicts |-> c, required |-> FALSE]
Req(o) == [o EXCEPT !.required = TRUE]

Globals == {O("quiet", "count", "", {"verbose"}), O("verbose", "count", "", {"quiet"})}

MCTable(t) ==
    Globals \cup
    CASE t = "create" ->
            {O("precision", "single", "", {}), O("project-individuals", "append", "project", {"strict"}),
             O("project-shape", "append", "project", {"strict"}), O("samples", "append", "samples", {}),
             O("samples-file", "single", "samples", {}), O("strict", "flag", "", {"project"}), O("threads", "single", "", {})}
      [] t = "view" ->
            {O("output", "single", "", {}), O("output-format", "single", "", {}), O("mask-monomorphic", "flag", "", {}),
             O("normalize", "flag", "", {}), O("precision", "single", "", {}),
             O("marginalize-remove", "append", "marginalize", {}), O("marginalize-keep", "append", "marginalize", {}),
             O("project-individuals", "append", "project", {}), O("project-shape", "append", "project", {})}
      [] t = "fold" ->
            {O("fill", "single", "", {}), O("output", "single", "", {}), O("precision", "single", "", {})}
      [] t = "stat" ->
            {O("delimiter", "single", "", {}), O("header", "flag", "", {}), O("precision", "append", "", {}),
             Req(O("statistics", "append", "", {}))}

MCMalformed == {"unknown_option", "missing_value", "invalid_value", "extra_positional"}
=============================================================================
