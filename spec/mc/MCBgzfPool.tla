---- MODULE MCBgzfPool ----
EXTENDS BgzfPool
====
