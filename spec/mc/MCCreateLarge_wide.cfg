SPECIFICATION Spec
CONSTANTS
  Scenarios <- MCWide
INVARIANTS
  WellFormed
  Conservation
  NonNegative
  RowsAreDistributions
  SeparatesIntoRows
  Emit
CHECK_DEADLOCK FALSE
