SPECIFICATION Spec
CONSTANTS
  Scenarios <- MCMarg
INVARIANTS
  MargMass
  FoldMass
  Emit
CHECK_DEADLOCK FALSE
