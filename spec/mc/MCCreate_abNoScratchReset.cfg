SPECIFICATION Spec
CONSTANTS
  AB_SumRule = FALSE
  ProjMode = "all"
  StrictSet = {FALSE}
  ResetOn = TRUE
  ScratchResetOn = FALSE
  ColumnOrders <- Orders3
  ListSet <- Lists3small
  RecSeqSet <- MCSeq_nofault2
INVARIANTS
  Conservation
  FinalIsSumOfContributions
  FailsWhereExpected
  NoPartialOutput
  ExpectedOutcomeReached
  UnselectedIrrelevant
  PerRecordContribution
  Emit
CHECK_DEADLOCK FALSE
