SPECIFICATION MCSpec
CONSTANTS
  N1 = 120
  N2 = 100
  N3 = 80
  Removed = 3
  Pos = 0
  AB_NoBackstride = FALSE
  L1 <- MCL1
  L2 <- MCL2
  S1 <- MCS1
  S2 <- MCS2
INVARIANTS
  IndInv
  Fused
  NoInnerNone
  Emit
CHECK_DEADLOCK FALSE
