------------------------------ MODULE MCStatRel ------------------------------
EXTENDS StatRel
Pattern(sh, seed) == [shape |-> sh, cells |-> [q \in 1..Elements(sh) |-> QI(((q * 7 + seed * 3) % 5) + (IF q % 3 = seed % 3 THEN 2 ELSE 0))]]
MCShapes == {<<5>>, <<6>>, <<3, 3>>, <<3, 4>>, <<5, 3>>, <<3, 2, 4>>, <<3, 3, 3>>, <<2, 3, 2, 3>>}
MCShapesQuick == {<<5>>, <<3, 3>>, <<4, 3>>, <<3, 2, 3>>, <<2, 3, 2, 2>>}
MCStart == {Pattern(sh, s) : sh \in MCShapes, s \in 0..3}
MCStartQuick == {Pattern(sh, s) : sh \in MCShapesQuick, s \in 0..1}
MCScale == {QMk(1, 3), QI(2), QI(1000), QMk(1, 10000)}   \* the last one brings every total below one
\* the last pair is sixteen orders of magnitude above the polymorphic entries: anything computed as
\* "total minus the monomorphic cells" would lose the polymorphic part to rounding
MCMono == {<<QI(0), QI(5)>>, <<QI(9), QMk(1, 2)>>, <<QPow(QI(10), 16), QMul(QI(3), QPow(QI(10), 15))>>}
=============================================================================
