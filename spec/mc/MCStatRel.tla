------------------------------ MODULE MCStatRel ------------------------------
EXTENDS StatRel
Pattern(sh, seed) == [shape |-> sh, cells |-> [q \in 1..Elements(sh) |-> QI(((q * 7 + seed * 3) % 5) + (IF q % 3 = seed % 3 THEN 2 ELSE 0))]]
MCShapes == {<<5>>, <<6>>, <<3, 3>>, <<3, 4>>, <<5, 3>>, <<3, 2, 4>>, <<3, 3, 3>>, <<2, 3, 2, 3>>}
MCShapesQuick == {<<5>>, <<3, 3>>, <<4, 3>>, <<3, 2, 3>>, <<2, 3, 2, 2>>}
\* spectra with NEGATIVE cells (a residual / difference spectrum): the f3 / f4 combinations are algebraic identities and hold there too,
\* with marginal f2 values that may themselves be negative
NegPattern(sh) == [shape |-> sh, cells |-> [q \in 1..Elements(sh) |-> QI(((q * 7) % 5) + 1 - (IF q % 4 = 1 THEN 9 ELSE 0))]]
MCNeg == {NegPattern(sh) : sh \in {<<3, 2, 4>>, <<2, 3, 2, 4>>, <<3, 2, 3>>}}
MCStart == {Pattern(sh, s) : sh \in MCShapes, s \in 0..3} \cup MCNeg
MCStartQuick == {Pattern(sh, s) : sh \in MCShapesQuick, s \in 0..1} \cup MCNeg
MCScale == {QMk(1, 3), QI(2), QI(1000), QMk(1, 10000),   \* the last one brings every total below one
            QDiv(QOne, QPow(QI(10), 20)), QPow(QI(10), 20)}   \* a total far below machine epsilon / far above 2^53
\* the last pair is sixteen orders of magnitude above the polymorphic entries: anything computed as
\* "total minus the monomorphic cells" would lose the polymorphic part to rounding
MCMono == {<<QI(0), QI(5)>>, <<QI(9), QMk(1, 2)>>, <<QPow(QI(10), 16), QMul(QI(3), QPow(QI(10), 15))>>}
=============================================================================
