SPECIFICATION Spec
CONSTANTS
  AB_SumRule = FALSE
  ProjMode = "none"
  StrictSet = {FALSE, TRUE}
  ResetOn = TRUE
  ScratchResetOn = TRUE
  ColumnOrders <- Orders2
  ListSet <- ListA
  RecSeqSet <- MCSeq_alt
INVARIANTS
  Conservation
  FinalIsSumOfContributions
  FailsWhereExpected
  NoPartialOutput
  ExpectedOutcomeReached
  UnselectedIrrelevant
  PerRecordContribution
  Emit
CHECK_DEADLOCK FALSE
