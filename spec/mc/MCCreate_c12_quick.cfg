SPECIFICATION Spec
CONSTANTS
  AB_SumRule = FALSE
  ProjMode = "none"
  StrictSet = {FALSE, TRUE}
  ResetOn = TRUE
  ScratchResetOn = TRUE
  ColumnOrders <- Orders4
  ListSet <- Lists4
  RecSeqSet <- MCSeq_c12
INVARIANTS
  Conservation
  FinalIsSumOfContributions
  FailsWhereExpected
  NoPartialOutput
  ExpectedOutcomeReached
  PerRecordContribution
  Emit
CHECK_DEADLOCK FALSE
