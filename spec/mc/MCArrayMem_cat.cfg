SPECIFICATION Spec
CONSTANTS
  MaxDims = 1
  Lens = {1}
  MaxOps = 2
  MaxCellsFull = 0
  AB_ColumnMajorWrite = FALSE
  ShapeSet <- MCCatalogue
  Ctors <- MCAllCtors
INVARIANTS
  LastWriteWins
  RefusedWritesChangeNothing
  SizeFixed
  Emit
CHECK_DEADLOCK FALSE
