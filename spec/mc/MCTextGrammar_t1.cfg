SPECIFICATION Spec
CONSTANTS
  AB_BlankOnly = FALSE
  Scenarios <- MCAll
INVARIANTS
  CanonicalAccepted
  AcceptedMeansCountMatches
  WhitespaceInsensitive
  Emit
CHECK_DEADLOCK FALSE
