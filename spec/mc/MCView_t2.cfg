SPECIFICATION Spec
CONSTANTS
  MaxDims = 2
  Lens = {2, 3, 4, 5}
  AnyOrder = FALSE
  ShapeSet <- MCShapeSet
INVARIANTS
  EqualsDocumented
  MaskExact
  NormalizedSumsToOne
  NoOptionsIsIdentity
  Emit
CHECK_DEADLOCK FALSE
