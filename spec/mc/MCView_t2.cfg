SPECIFICATION Spec
CONSTANTS
  MaxDims = 2
  Lens = {2, 3, 4, 5}
  DestSet = {"stdout", "fresh", "stale", "inplace"}
  AB_KeepOldTail = FALSE
  AnyOrder = FALSE
  ShapeSet <- MCShapeSet
INVARIANTS
  EqualsDocumented
  MaskExact
  NormalizedSumsToOne
  NoOptionsIsIdentity
  DestinationHoldsOnlyResult
  Emit
CHECK_DEADLOCK FALSE
