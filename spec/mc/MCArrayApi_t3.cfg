SPECIFICATION Spec
CONSTANTS
  MaxDims = 4
  Lens = {1, 2, 3}
  Past = 3
  AB_ViewRestart = FALSE
  AB_AxisLenConst = FALSE
  AB_GetAxisOffByOne = FALSE
  NthArgs = {0, 1, 2, 9}
  NthBudget = 2
  NthMaxCells = 6
  CloneBudget = 1
  AB_CloneResets = FALSE
  AB_NthUnclamped = FALSE
  AB_View0Dim = FALSE
  ShapeSet <- MCCatalogue
INVARIANTS
  YieldsExpectedPrefix
  Fused
  LenExact
  NoPanic
  Bijection
  ViewsPartition
  TableNoPanic
  Emit
CHECK_DEADLOCK FALSE
