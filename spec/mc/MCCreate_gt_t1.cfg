SPECIFICATION Spec
CONSTANTS
  AB_SumRule = FALSE
  ProjMode = "both"
  StrictSet = {FALSE, TRUE}
  ResetOn = TRUE
  ScratchResetOn = TRUE
  ColumnOrders <- Orders2
  ListSet <- ListA
  RecSeqSet <- MCSeq_gt_all
INVARIANTS
  Conservation
  FinalIsSumOfContributions
  FailsWhereExpected
  NoPartialOutput
  ExpectedOutcomeReached
  UnselectedIrrelevant
  PerRecordContribution
  Emit
CHECK_DEADLOCK FALSE
