INIT Init
NEXT Next
