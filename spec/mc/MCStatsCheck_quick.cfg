SPECIFICATION Spec
CONSTANTS
  AB_PiDenominator = FALSE
  EstimatorNs = {3, 4, 5, 8, 12, 20, 63, 64, 170, 171, 400}
  BigShapes <- MCBigQuick
  PopStructs <- MCPops
  MaxSitesFor <- MCMax
INVARIANTS
  SpectrumMatchesGenotypes
  EstimatorSane
  Emit
CHECK_DEADLOCK FALSE
