SPECIFICATION Spec
CONSTANTS
  AB_PiDenominator = FALSE
  EstimatorNs = {}
  BigShapes <- MCBigHuge
  PopStructs <- MCPopsNone
  MaxSitesFor <- MCMax
INVARIANTS
  Emit
CHECK_DEADLOCK FALSE
