SPECIFICATION Spec
CONSTANTS
  AB_SumRule = FALSE
  ProjMode = "both"
  StrictSet = {FALSE}
  ResetOn = TRUE
  ScratchResetOn = TRUE
  ColumnOrders <- AllOrders3
  ListSet <- MCLists_perm
  RecSeqSet <- MCSeq_perm
INVARIANTS
  Conservation
  FinalIsSumOfContributions
  FailsWhereExpected
  NoPartialOutput
  ExpectedOutcomeReached
  UnselectedIrrelevant
  PerRecordContribution
  ListOrderRelations
  Emit
CHECK_DEADLOCK FALSE
