SPECIFICATION Spec
CONSTANTS
  MaxDims = 4
  Lens = {1, 2, 3}
  DestSet = {"stdout", "fresh", "stale", "inplace"}
  AB_KeepOldTail = FALSE
  AnyOrder = FALSE
  PermuteNames = FALSE
  AB_TrustNamedOrder = FALSE
  ShapeSet <- MCShapeSet
INVARIANTS
  EqualsDocumented
  MaskExact
  NormalizedSumsToOne
  NoOptionsIsIdentity
  DestinationHoldsOnlyResult
  Emit
CHECK_DEADLOCK FALSE
