SPECIFICATION Spec
CONSTANTS
  MaxDims = 4
  Lens = {1, 2, 3}
  AnyOrder = FALSE
  ShapeSet <- MCShapeSet
INVARIANTS
  EqualsDocumented
  MaskExact
  NormalizedSumsToOne
  NoOptionsIsIdentity
  Emit
CHECK_DEADLOCK FALSE
