SPECIFICATION Spec
CONSTANTS
  MaxDims = 3
  Lens = {1, 2, 3}
  MaxOps = 2
  MaxCellsFull = 9
  AB_ColumnMajorWrite = FALSE
  ShapeSet <- MCShapeSet
  Ctors <- MCAllCtors
INVARIANTS
  LastWriteWins
  RefusedWritesChangeNothing
  SizeFixed
  Emit
CHECK_DEADLOCK FALSE
