---------------------------- MODULE MCStatsCheck ----------------------------
EXTENDS StatsCheck
MCPops == {<<2>>, <<3>>, <<1, 1>>, <<1, 2>>, <<2, 1>>, <<1, 1, 1>>, <<1, 1, 1, 1>>}
MCPopsAll == MCPops \cup {<<4>>, <<2, 2>>, <<1, 3>>, <<2, 1, 1>>, <<1, 1, 2>>, <<1, 2, 1, 1>>}
MCMax(p) == IF SeqSum(p) <= 2 THEN 3 ELSE IF SeqSum(p) = 3 THEN 2 ELSE 1
MCMaxT(p) == IF SeqSum(p) <= 2 THEN 4 ELSE IF SeqSum(p) = 3 THEN 3 ELSE 2
MCBigQuick == {<<21, 11>>, <<3, 3>>, <<7, 4, 5>>, <<3, 5, 2, 4>>}
MCBigAll == {<<21, 11>>, <<41, 3>>, <<3, 3>>, <<9, 9>>, <<7, 4, 5>>, <<11, 3, 3>>, <<3, 5, 2, 4>>, <<5, 5, 5, 5>>}
MCBigNone == {}
\* more than 2^16 cells (a vectorised or blocked reduction would change path here)
MCBigHuge == {<<257, 257>>, <<41, 41, 41>>, <<17, 17, 17, 17>>}
MCPopsNone == {}
=============================================================================
