---------------------------- MODULE MCStatsCheck ----------------------------
EXTENDS StatsCheck
MCPops == {<<2>>, <<3>>, <<1, 1>>, <<1, 2>>, <<2, 1>>, <<1, 1, 1>>, <<1, 1, 1, 1>>}
MCPopsAll == MCPops \cup {<<4>>, <<2, 2>>, <<1, 3>>, <<2, 1, 1>>, <<1, 1, 2>>, <<1, 2, 1, 1>>}
MCMax(p) == IF SeqSum(p) <= 2 THEN 3 ELSE IF SeqSum(p) = 3 THEN 2 ELSE 1
MCMaxT(p) == IF SeqSum(p) <= 2 THEN 4 ELSE IF SeqSum(p) = 3 THEN 3 ELSE 2
=============================================================================
