SPECIFICATION Spec
CONSTANTS
  Scenarios <- MCJoint
INVARIANTS
  WellFormed
  Conservation
  NonNegative
  RowsAreDistributions
  SeparatesIntoRows
  Emit
CHECK_DEADLOCK FALSE
