SPECIFICATION Spec
CONSTANTS
  MaxDims = 2
  Lens = {2, 3}
  AnyOrder = TRUE
  ShapeSet <- MCShapeSet
INVARIANTS
  EqualsDocumented
  MaskExact
  NormalizedSumsToOne
  NoOptionsIsIdentity
  Emit
CHECK_DEADLOCK FALSE
