SPECIFICATION Spec
CONSTANTS
  MaxDims = 2
  Lens = {2, 3}
  DestSet = {"stdout", "stale", "inplace"}
  AB_KeepOldTail = FALSE
  AnyOrder = TRUE
  ShapeSet <- MCShapeSet
INVARIANTS
  EqualsDocumented
  MaskExact
  NormalizedSumsToOne
  NoOptionsIsIdentity
  DestinationHoldsOnlyResult
  Emit
CHECK_DEADLOCK FALSE
