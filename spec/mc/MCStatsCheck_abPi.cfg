SPECIFICATION Spec
CONSTANTS
  AB_PiDenominator = TRUE
  EstimatorNs = {3}
  PopStructs <- MCPops
  MaxSitesFor <- MCMax
INVARIANTS
  SpectrumMatchesGenotypes
  EstimatorSane
  Emit
CHECK_DEADLOCK FALSE
