SPECIFICATION Spec
CONSTANTS
  AB_PiDenominator = TRUE
  EstimatorNs = {3}
  BigShapes <- MCBigNone
  PopStructs <- MCPops
  MaxSitesFor <- MCMax
INVARIANTS
  SpectrumMatchesGenotypes
  EstimatorSane
  Emit
CHECK_DEADLOCK FALSE
