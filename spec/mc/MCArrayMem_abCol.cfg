SPECIFICATION Spec
CONSTANTS
  MaxDims = 2
  Lens = {1, 2, 3}
  MaxOps = 1
  MaxCellsFull = 9
  AB_ColumnMajorWrite = TRUE
  ShapeSet <- MCShapeSet
  Ctors <- MCAllCtors
INVARIANTS
  LastWriteWins
  RefusedWritesChangeNothing
  SizeFixed
  Emit
CHECK_DEADLOCK FALSE
