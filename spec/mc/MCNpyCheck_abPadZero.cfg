SPECIFICATION Spec
CONSTANTS
  AB_PadZero = TRUE
  AB_StopAtCount = FALSE
  ReaderTypes = {"f4", "f8", "i1", "i2", "i4", "i8", "u1", "u2", "u4", "u8"}
  ReaderOrders = {"<", ">", "|"}
  ReaderVersions = {1, 2, 3}
  WriterShapes <- MCWriterShapes
  ReaderSpellings <- QuickSp
  ReaderShapesFor <- MCShapesFor
  DamageCases <- MCDamageQuick
INVARIANTS
  WriterOk
  DecodeLaws
  HeaderAligned
  GapAsAnnounced
  DamageOk
  Emit
CHECK_DEADLOCK FALSE
