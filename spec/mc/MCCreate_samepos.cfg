SPECIFICATION Spec
CONSTANTS
  AB_SumRule = FALSE
  ProjMode = "both"
  StrictSet = {FALSE, TRUE}
  ResetOn = TRUE
  ScratchResetOn = TRUE
  ColumnOrders <- Orders3
  ListSet <- Lists3small
  RecSeqSet <- MCSeq_samepos
INVARIANTS
  Conservation
  FinalIsSumOfContributions
  FailsWhereExpected
  NoPartialOutput
  ExpectedOutcomeReached
  UnselectedIrrelevant
  PerRecordContribution
  Emit
CHECK_DEADLOCK FALSE
