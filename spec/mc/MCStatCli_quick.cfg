SPECIFICATION Spec
CONSTANTS
  AB_SortColumns = FALSE
  Delimiters = {",", ";"}
  Spectra <- MCSpectra
  StatSeqs <- MCStatSeqs
  PrecisionSeqs <- MCPrecs
INVARIANTS
  RowMatchesRequest
  NoRowOnError
  Emit
CHECK_DEADLOCK FALSE
