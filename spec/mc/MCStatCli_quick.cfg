SPECIFICATION Spec
CONSTANTS
  AB_SortColumns = FALSE
  Delimiters = {",", ";"}
  Spectra <- MCSpectra
  StatSeqs <- MCStatSeqs
  PrecisionSeqs <- MCPrecs
INVARIANTS
  RowMatchesRequest
  NothingWrittenOnError
  Emit
CHECK_DEADLOCK FALSE
