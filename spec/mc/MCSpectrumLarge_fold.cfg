SPECIFICATION Spec
CONSTANTS
  Scenarios <- MCFold
INVARIANTS
  MargMass
  FoldMass
  Emit
CHECK_DEADLOCK FALSE
