SPECIFICATION Spec
CONSTANTS
  NBlocks = 5
  Workers = 3
  EmptyBlocks = {2}
  AB_DeliverAsCompleted = FALSE
INVARIANTS
  InOrder
  NoLossNoDup
  Bounded
PROPERTIES
  Completes
CHECK_DEADLOCK FALSE
