SPECIFICATION Spec
CONSTANTS
  MaxDims = 3
  Lens = {1, 2}
  Past = 3
  AB_ViewRestart = FALSE
  AB_AxisLenConst = TRUE
  AB_GetAxisOffByOne = FALSE
  AB_View0Dim = FALSE
  ShapeSet <- MCShapeSet
INVARIANTS
  YieldsExpectedPrefix
  Fused
  LenExact
  NoPanic
  Bijection
  ViewsPartition
  TableNoPanic
  Emit
CHECK_DEADLOCK FALSE
