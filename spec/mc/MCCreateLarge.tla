---------------------------- MODULE MCCreateLarge ----------------------------
EXTENDS CreateLarge
\* cohorts straddling the sizes where binomial coefficients leave the f64 range (about 1030 chromosomes)
R1(c, a) == <<<<c, a>>>>
MCScenarios ==
    {[pops |-> <<600>>, proj |-> <<601>>,
      recs |-> <<R1(600, 0), R1(600, 1), R1(600, 2), R1(600, 600), R1(600, 1199), R1(600, 1200), R1(550, 37), R1(300, 300), R1(299, 5)>>],
     [pops |-> <<600>>, proj |-> <<3>>, recs |-> <<R1(600, 1), R1(600, 600), R1(1, 1), R1(0, 0), R1(520, 1040)>>],
     [pops |-> <<520>>, proj |-> <<1031>>, recs |-> <<R1(520, 3), R1(516, 500), R1(515, 1), R1(514, 2)>>],
     [pops |-> <<300, 80>>, proj |-> <<201, 5>>,
      recs |-> <<<< <<300, 0>>, <<80, 160>> >>, << <<300, 1>>, <<80, 0>> >>, << <<250, 250>>, <<40, 7>> >>, << <<99, 3>>, <<80, 1>> >>, << <<100, 200>>, <<2, 4>> >> >>],
     \* allele counts and called-chromosome counts around 170/171/172 (edge of the factorial table)
     [pops |-> <<90>>, proj |-> <<11>>, recs |-> <<R1(90, 171), R1(90, 170), R1(90, 172), R1(86, 171), R1(85, 170), R1(90, 9), R1(86, 1)>>],
     \* two populations of 40 and 45 individuals projected to 35 and 3: large and small binomial arguments in
     \* one run, the same records in two orders (C11: the result must not depend on what was computed before)
     [pops |-> <<40, 45>>, proj |-> <<71, 7>>,
      recs |-> <<<< <<40, 70>>, <<45, 3>> >>, << <<40, 5>>, <<45, 80>> >>, << <<39, 66>>, <<44, 1>> >>, << <<36, 1>>, <<3, 6>> >> >>],
     [pops |-> <<40, 45>>, proj |-> <<71, 7>>,
      recs |-> <<<< <<36, 1>>, <<3, 6>> >>, << <<39, 66>>, <<44, 1>> >>, << <<40, 5>>, <<45, 80>> >>, << <<40, 70>>, <<45, 3>> >> >>],
     [pops |-> <<40, 30, 20>>, proj |-> <<3, 3, 3>>,
      recs |-> <<<< <<40, 1>>, <<30, 0>>, <<20, 0>> >>, << <<40, 40>>, <<30, 30>>, <<20, 20>> >>, << <<1, 2>>, <<1, 0>>, <<1, 1>> >>, << <<0, 0>>, <<30, 5>>, <<20, 5>> >> >>]}
\* two populations at sizes where the JOINT denominator C(n1, m1) C(n2, m2) leaves the f64 range although each factor alone
\* does not (about 2^1073 and 2^1061), with every kind of source count; and a cohort whose OUTPUT has more than 2^16 cells
MCJoint == {[factored |-> TRUE, pops |-> <<270, 270>>, proj |-> <<271, 271>>,
             recs |-> <<<< <<270, 270>>, <<270, 270>> >>, << <<270, 1>>, <<270, 539>> >>, << <<269, 100>>, <<200, 0>> >> >>],
            [factored |-> TRUE, pops |-> <<514, 20>>, proj |-> <<515, 21>>,
             recs |-> <<<< <<514, 514>>, <<20, 20>> >>, << <<514, 3>>, <<20, 39>> >>, << <<400, 799>>, <<15, 1>> >> >>]}
MCWide == {[factored |-> TRUE, pops |-> <<128, 128>>, proj |-> <<257, 257>>,
            recs |-> <<<< <<128, 256>>, <<128, 256>> >>, << <<128, 255>>, <<128, 0>> >>, << <<128, 7>>, <<128, 200>> >>, << <<127, 7>>, <<128, 200>> >> >>]}
MCScenariosQuick == {s \in MCScenarios : s.pops \in {<<600>>, <<90>>, <<40, 45>>, <<40, 30, 20>>} /\ s.proj # <<601>>}
                    \* 1200 chromosomes down to 1100: C(1200, 1100) is finite, the cells beyond the ALT count are exactly zero
                    \cup {[pops |-> <<600>>, proj |-> <<1101>>, recs |-> <<R1(600, 1), R1(600, 2), R1(600, 1199), R1(580, 5), R1(560, 600)>>]}
                    \* the last two: fewer REF alleles than draws (the "impossible outcome" guard of the log-space branch must compare with draws - observed)
                    \cup {[pops |-> <<600>>, proj |-> <<601>>, recs |-> <<R1(600, 0), R1(600, 1), R1(600, 2), R1(550, 37), R1(600, 1199), R1(600, 1000)>>]}
ASSUME \A s \in MCScenarios \cup MCJoint \cup MCWide : Len(s.pops) = Len(s.proj)
=============================================================================
