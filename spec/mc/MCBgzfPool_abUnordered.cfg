SPECIFICATION Spec
CONSTANTS
  NBlocks = 4
  Workers = 3
  EmptyBlocks = {2}
  AB_DeliverAsCompleted = TRUE
INVARIANTS
  InOrder
  NoLossNoDup
  Bounded
PROPERTIES
  Completes
CHECK_DEADLOCK FALSE
