SPECIFICATION Spec
CONSTANTS
  AB_SumRule = FALSE
  ProjMode = "none"
  StrictSet = {FALSE}
  ResetOn = TRUE
  ScratchResetOn = TRUE
  ColumnOrders <- OrdersHash
  ListSet <- ListsHash
  RecSeqSet <- MCSeq_names
INVARIANTS
  Conservation
  FinalIsSumOfContributions
  FailsWhereExpected
  NoPartialOutput
  ExpectedOutcomeReached
  UnselectedIrrelevant
  PerRecordContribution
  ListOrderRelations
  Emit
CHECK_DEADLOCK FALSE
