SPECIFICATION Spec
CONSTANTS
  MaxDims = 3
  Lens = {2, 3}
  MaxOps = 3
  OffBy = 1
  ShapeSet <- MCShapeSet
INVARIANTS
  DeclEqualsAsCoded
  MirrorIsFlatReverse
  MassWithFillZero
  Idempotent
  PolaritySymmetric
  LowerIsFill
  Emit
CHECK_DEADLOCK FALSE
