------------------------------- MODULE MCFold -------------------------------
EXTENDS Fold
CONSTANTS MaxDims, Lens
MCShapeSet == AllShapes(MaxDims, Lens)
=============================================================================
