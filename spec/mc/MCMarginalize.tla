--------------------------- MODULE MCMarginalize ---------------------------
EXTENDS Marginalize
CONSTANTS MaxDims, Lens
MCShapeSet == AllShapes(MaxDims, Lens)
\* unequal lengths up to 6 (property bound) where the full grid would be too large
MCCatalogue == {<<6, 5>>, <<2, 6>>, <<4, 1, 6>>, <<6, 2, 3>>, <<3, 4, 5>>, <<1, 6, 1>>,
                <<2, 3, 4, 5>>, <<5, 4, 3, 2>>, <<6, 1, 2, 3>>, <<4, 4, 1, 5>>,
                <<2, 3, 2, 4, 3>>, <<5, 1, 4, 2, 3>>, <<1, 2, 3, 4, 5>>, <<6, 2, 1, 2, 4>>}
=============================================================================
