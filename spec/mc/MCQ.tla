------------------------------- MODULE MCQ -------------------------------
(* Drift test for the Q override: the same expression set is evaluated with and  *)
(* without Q.class on the classpath; bin/check diffs the printed lines.          *)
EXTENDS Q, Integers, Sequences, TLC

R == -6..6
Vals == {QMk(n, d) : n \in R, d \in 1..6}

Line(a, b) == <<QStr(a), QStr(b), QStr(QAdd(a, b)), QStr(QSub(a, b)), QStr(QMul(a, b)),
               IF QIsZero(b) THEN "-" ELSE QStr(QDiv(a, b)), QLt(a, b), QLe(a, b), a = b,
               QStr(QNeg(a)), QSign(a)>>

ASSUME \A a \in Vals, b \in Vals : PrintT(<<"MCQ", Line(a, b)>>)
ASSUME \A n \in 0..12, k \in 0..13 : PrintT(<<"MCQB", n, k, QStr(QBinom(n, k))>>)
ASSUME \A n \in 1..8, k \in 0..8, m \in 0..8, j \in 0..8 :
          (k <= n /\ m <= n) => PrintT(<<"MCQH", n, k, m, j, QStr(QHyp(n, k, m, j))>>)
ASSUME \A m \in 0..8, p \in 1..2 : PrintT(<<"MCQHarm", m, p, QStr(QHarm(m, p))>>)
ASSUME \A b \in {QMk(2,1), QMk(-3,2), QMk(1,3)}, e \in -4..5 : PrintT(<<"MCQP", QStr(b), e, QStr(QPow(b, e))>>)
ASSUME \A a \in Vals : PrintT(<<"MCQF", QStr(a), QStr(QFloor(a))>>)
ASSUME PrintT(<<"MCQS", QStr(QSumSeq(<<QMk(1,2), QMk(1,3), QMk(1,6)>>)), QStr(QProdSeq(<<QMk(2,3), QMk(3,4)>>))>>)

\* laws, checked by TLC in both modes
ASSUME \A a \in Vals, b \in Vals : QAdd(a, b) = QAdd(b, a) /\ QMul(a, b) = QMul(b, a)
ASSUME \A a \in Vals, b \in Vals : QSub(QAdd(a, b), b) = a
ASSUME \A a \in Vals, b \in Vals : ~QIsZero(b) => QMul(QDiv(a, b), b) = a
ASSUME \A n \in 1..8, k \in 0..8, m \in 0..8 : (k <= n /\ m <= n) =>
          QSumSeq([j \in 1..(m+1) |-> QHyp(n, k, m, j - 1)]) = QOne
VARIABLE x
Init == x = 0
Next == UNCHANGED x
=============================================================================
