SPECIFICATION Spec
CONSTANTS
  MaxDims = 4
  Lens = {1, 2, 3}
  MaxProbeLen = 3
  AB_NoShift = FALSE
  ShapeSet <- MCShapeSet
INVARIANTS
  EqualsDeclarative
  ShapeIsSurviving
  MassInvariant
  AsCodedAgrees
  KeepEqualsRemoveComplement
  ProbeSound
  Emit
CHECK_DEADLOCK FALSE
