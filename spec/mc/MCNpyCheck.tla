----------------------------- MODULE MCNpyCheck -----------------------------
EXTENDS NpyCheck
\* shapes (f, 1, 1, ..., 1) with d axes: each extra axis adds 3 characters to the dict, so d = 1..70 with
\* f in {1, 10, 100} realises every dict length modulo 64, including the multiples of 64 minus 10
MCWriterShapes == {[i \in 1..d |-> IF i = 1 THEN f ELSE 1] : d \in 1..70, f \in {1, 10, 100}}
                  \cup {<<3>>, <<3, 3>>, <<5, 4, 3>>, <<2, 2, 2, 2>>, <<11, 7>>, <<0>>, <<2, 0>>, <<300>>, <<15, 20>>, <<1500>>}
MCShapesFor(n) == IF n % 2 = 0 THEN <<2, n \div 2>> ELSE <<n>>
AllSp == Spellings
CanonSp == [quote |-> "'", comma |-> ", ", colon |-> ": ", trailing |-> TRUE, order |-> <<1, 2, 3>>, tupleComma |-> FALSE]
QuickSp == {CanonSp,
            [CanonSp EXCEPT !.quote = "\""], [CanonSp EXCEPT !.comma = ","], [CanonSp EXCEPT !.colon = ":"],
            [CanonSp EXCEPT !.trailing = FALSE], [CanonSp EXCEPT !.tupleComma = TRUE],
            [CanonSp EXCEPT !.order = <<3, 1, 2>>], [CanonSp EXCEPT !.order = <<2, 3, 1>>, !.quote = "\"", !.trailing = FALSE]}
DamageShapes == {<<3>>, <<1>>, <<0>>, <<2, 3>>, <<1, 1>>, <<2, 1, 2>>, <<3, 0>>, <<2, 2, 1, 2>>}
MCDamageQuick == [version : {1, 2}, type : {"f8", "i2", "u1"}, shape : {<<3>>, <<0>>, <<2, 3>>, <<2, 1, 2>>}, gap : {0}]
                 \cup [version : {1}, type : {"f8", "u1"}, shape : {<<3>>, <<2, 3>>}, gap : {1, 8, 16}]
                 \cup [version : {1}, type : {"f8", "i2"}, shape : {<<1100>>}, gap : {0}]      \* data beyond any I/O buffer size
MCDamageAll == [version : {1, 2, 3}, type : {"f8", "f4", "i2", "u1", "i8"}, shape : DamageShapes, gap : {0, 8}]
               \cup [version : {1, 2}, type : {"f8", "u1", "i2"}, shape : {<<3>>, <<2, 3>>, <<0>>}, gap : {1, 2, 4, 16, 33, 63}]
               \cup [version : {1, 3}, type : {"f8", "f4", "i2", "u1"}, shape : {<<1100>>, <<33, 40>>}, gap : {0}]

\* every header length modulo 64 is exercised by the writer shapes
ASSUME \A r \in 0..63 : \E sh \in MCWriterShapes : Len(WriterDict(sh)) % 64 = r
=============================================================================
