SPECIFICATION Spec
CONSTANTS
  MaxDims = 2
  Lens = {1, 2, 3, 4}
  OneAxisMax = 9
  LargeN = {169, 171, 400, 1029, 1030, 1200, 2000}
  BandN = {170, 171, 172, 175}
  AB_WrongStep = FALSE
  FromSet <- MCFromSet
  LargeSet <- MCLargeSet
INVARIANTS
  ClosedForm
  TwoStepEqualsDirect
  MassAndSign
  SameShapeIsIdentity
  CommutesWithMarginalize
  AdmissibleIffNoReason
  LargeRowOk
  Emit
CHECK_DEADLOCK FALSE
