SPECIFICATION Spec
CONSTANTS
  FileNames = {"x.npy", "x.NPY", "x.sfs", "x.txt", "x", "x.npy.txt", "x.text.npy", "x.tsv", "-"}
  MaxSteps = 2
  AB_LowercaseHeader = FALSE
  Precisions = {0, 6, 17}
  RoundTripPrecisions = {0, 1, 2, 3, 4, 5, 6, 7, 8, 9, 10, 11, 12, 13, 14, 15, 16, 17}
  DigitExponents = {0, 1, 5, 10, 14, 15}
  RoundTripShapes <- MCShapesRT
  DigitMantissas <- MCMantissas
INVARIANTS
  DetectedAsWritten
  HeadsDistinct
  BoundIsFinite
  CarriesRequestedPrecision
  Emit
CHECK_DEADLOCK FALSE
