SPECIFICATION Spec
CONSTANTS
  NBlocks = 4
  Workers = 1
  EmptyBlocks = {2}
  AB_DeliverAsCompleted = FALSE
INVARIANTS
  InOrder
  NoLossNoDup
  Bounded
PROPERTIES
  Completes
CHECK_DEADLOCK FALSE
