SPECIFICATION Spec
CONSTANTS
  MaxOps = 3
  AB_ClaimFuLiFoldInvariant = FALSE
  StartSet <- MCStart
  ScaleFactors <- MCScale
  MonoValues <- MCMono
INVARIANTS
  RelationsHold
  FCombinations
  Emit
CHECK_DEADLOCK FALSE
