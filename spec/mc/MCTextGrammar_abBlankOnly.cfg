SPECIFICATION Spec
CONSTANTS
  AB_BlankOnly = TRUE
  Scenarios <- MCQuick
INVARIANTS
  CanonicalAccepted
  AcceptedMeansCountMatches
  WhitespaceInsensitive
  Emit
CHECK_DEADLOCK FALSE
