--------------------------- MODULE MCTextGrammar ---------------------------
EXTENDS TextGrammar
MCQuick == [h : HeaderNames, b : BodyNames, v : {"plain"}]
           \cup [h : {"canonical", "crlf"}, b : {"single_blank", "one_per_line"}, v : ValueNames]
MCAll == [h : HeaderNames, b : BodyNames, v : ValueNames]
=============================================================================
