SPECIFICATION Spec
CONSTANTS
  Tools = {"create", "view", "fold", "stat"}
  MaxOccurrences = 3
  StdinKinds = {"tty", "data", "null"}
  AB_NoGroups = FALSE
  Table <- MCTable
  Malformed <- MCMalformed
INVARIANTS
  NoPanic
  OrderFree
  ExclusiveGroupsRespected
  Emit
CHECK_DEADLOCK FALSE
