------------------------------- MODULE MCView -------------------------------
EXTENDS View
CONSTANTS MaxDims, Lens
MCShapeSet == AllShapes(MaxDims, Lens)
\* unequal lengths with 3 and 4 axes: every order of naming up to three removed axes
MCNameShapes == {<<2, 3, 2, 3>>, <<3, 2, 2, 2>>, <<2, 3, 4>>, <<1>>, <<1, 1>>, <<1, 3>>, <<2, 1>>}
=============================================================================
