------------------------------- MODULE MCView -------------------------------
EXTENDS View
CONSTANTS MaxDims, Lens
MCShapeSet == AllShapes(MaxDims, Lens)
=============================================================================
