SPECIFICATION MCSpec
CONSTANTS
  N1 = 30
  N2 = 25
  N3 = 20
  N4 = 15
  Removed = 3
  Pos = 7
  AB_NoBackstride = FALSE
  L1 <- MCL1
  L2 <- MCL2
  L3 <- MCL3
  S1 <- MCS1
  S2 <- MCS2
  S3 <- MCS3
INVARIANTS
  IndInv
  Fused
  NoInnerNone
  Emit
CHECK_DEADLOCK FALSE
