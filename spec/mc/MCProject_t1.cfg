SPECIFICATION Spec
CONSTANTS
  MaxDims = 2
  Lens = {1, 2, 3, 4, 5, 6}
  OneAxisMax = 13
  LargeN = {169, 170, 171, 172, 200, 400, 1000, 1028, 1029, 1030, 1200, 2000, 4000}
  BandN = {168, 169, 170, 171, 172, 173, 174, 175, 176}
  AB_WrongStep = FALSE
  FromSet <- MCFromSet
  LargeSet <- MCLargeSet
INVARIANTS
  ClosedForm
  TwoStepEqualsDirect
  MassAndSign
  SameShapeIsIdentity
  CommutesWithMarginalize
  AdmissibleIffNoReason
  LargeRowOk
  Emit
CHECK_DEADLOCK FALSE
