SPECIFICATION Spec
CONSTANTS
  MaxDims = 4
  Lens = {1, 2, 3}
  OneAxisMax = 2
  LargeN = {}
  BandN = {}
  AB_WrongStep = FALSE
  FromSet <- MCFromSet
  LargeSet <- MCLargeSet
INVARIANTS
  ClosedForm
  TwoStepEqualsDirect
  MassAndSign
  SameShapeIsIdentity
  CommutesWithMarginalize
  AdmissibleIffNoReason
  LargeRowOk
  Emit
CHECK_DEADLOCK FALSE
