---------------------------- MODULE MCArrayApi ----------------------------
EXTENDS ArrayApi
CONSTANTS MaxDims, Lens
\* all shapes with 1..MaxDims axes and lengths in Lens
MCShapeSet == AllShapes(MaxDims, Lens)
\* unequal-length shapes with 4 and 5 axes and lengths up to 5 (too many cells for the full grid)
MCCatalogue == {<<5, 4, 3, 2>>, <<2, 3, 4, 5>>, <<5, 1, 5, 1>>, <<1, 5, 1, 5>>, <<4, 4, 4, 4>>,
                <<5, 2, 1, 3, 4>>, <<1, 1, 5, 1, 1>>, <<2, 5, 2, 5, 2>>, <<3, 3, 3, 3, 3>>,
                <<5, 5, 5, 2>>, <<4, 5, 5, 4>>}
\* arrays without cells: some axis has length zero (views along the other axes exist and are empty)
MCZeroShapes == {<<0>>, <<2, 0>>, <<0, 2>>, <<2, 0, 3>>, <<3, 2, 0>>, <<0, 3, 2>>, <<0, 0>>, <<1, 0, 1>>, <<2, 2, 0, 2>>}
=============================================================================
