SPECIFICATION Spec
CONSTANTS
  AB_SumRule = FALSE
  ProjMode = "none"
  StrictSet = {FALSE}
  ResetOn = TRUE
  ScratchResetOn = TRUE
  ColumnOrders <- AllOrders3
  ListSet <- MCLists_perm_quick
  RecSeqSet <- MCSeq_perm
INVARIANTS
  Conservation
  FinalIsSumOfContributions
  FailsWhereExpected
  NoPartialOutput
  ExpectedOutcomeReached
  UnselectedIrrelevant
  PerRecordContribution
  ListOrderRelations
  Emit
CHECK_DEADLOCK FALSE
