SPECIFICATION Spec
CONSTANTS
  MaxDims = 4
  Lens = {2, 3}
  DestSet = {"stdout"}
  AB_KeepOldTail = FALSE
  AnyOrder = FALSE
  PermuteNames = TRUE
  AB_TrustNamedOrder = TRUE
  ShapeSet <- MCNameShapes
INVARIANTS
  EqualsDocumented
  MaskExact
  NormalizedSumsToOne
  NoOptionsIsIdentity
  DestinationHoldsOnlyResult
  Emit
CHECK_DEADLOCK FALSE
