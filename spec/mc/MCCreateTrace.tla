---- MODULE MCCreateTrace ----
EXTENDS CreateTrace
====
