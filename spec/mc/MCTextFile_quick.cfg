SPECIFICATION Spec
CONSTANTS
  MaxFaults = 2
  ShapeSet <- MCShapesQuick
INVARIANTS
  IntactAccepted
  SingleTokenFaultRejected
  Emit
CHECK_DEADLOCK FALSE
