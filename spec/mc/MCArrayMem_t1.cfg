SPECIFICATION Spec
CONSTANTS
  MaxDims = 3
  Lens = {1, 2}
  MaxOps = 3
  MaxCellsFull = 8
  AB_ColumnMajorWrite = FALSE
  ShapeSet <- MCShapeSet
  Ctors <- MCTwoCtors
INVARIANTS
  LastWriteWins
  RefusedWritesChangeNothing
  SizeFixed
  Emit
CHECK_DEADLOCK FALSE
