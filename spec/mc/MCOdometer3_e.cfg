SPECIFICATION MCSpec
CONSTANTS
  N1 = 2
  N2 = 1
  N3 = 64
  N4 = 1
  Removed = 1
  Pos = 1
  AB_NoBackstride = FALSE
  L1 <- MCL1
  L2 <- MCL2
  L3 <- MCL3
  S1 <- MCS1
  S2 <- MCS2
  S3 <- MCS3
INVARIANTS
  IndInv
  Fused
  NoInnerNone
  Emit
CHECK_DEADLOCK FALSE
