--------------------------- MODULE MCSpectrumLarge ---------------------------
EXTENDS SpectrumLarge
M(sh, R) == [op |-> "marg", shape |-> sh, remove |-> R]
F(sh) == [op |-> "fold", shape |-> sh, remove |-> {}]
ProperSubsets(n) == {R \in SUBSET (1..n) : R # {} /\ Cardinality(R) < n}
\* unequal axis lengths, longer axes at higher positions: summing the wrong axis changes the shape or the values
MCQuick == {M(<<4, 5, 60, 70>>, R) : R \in {{2, 3}, {3, 4}, {1, 3}, {1, 2, 3}, {4}}}
           \cup {M(<<257, 257>>, {1}), F(<<257, 257>>), F(<<41, 41, 41>>)}
MCAll == {M(<<4, 5, 60, 70>>, R) : R \in ProperSubsets(4)} \cup {M(<<5, 5, 60, 60>>, R) : R \in ProperSubsets(4)}
         \cup {M(<<257, 257>>, R) : R \in ProperSubsets(2)} \cup {M(<<41, 41, 41>>, R) : R \in ProperSubsets(3)}
         \* beyond a million cells (a second size class: block sizes of 2^20)
         \cup {M(<<8, 9, 120, 130>>, R) : R \in {{3, 4}, {1, 2}, {2, 3}, {1, 4}, {1, 2, 3}}}
         \cup {F(<<257, 257>>), F(<<41, 41, 41>>), F(<<4, 5, 60, 70>>), F(<<258, 257>>), F(<<17, 17, 17, 17>>)}
MCMarg == {x \in MCAll : x.op = "marg"}
MCFold == {x \in MCAll : x.op = "fold"}
=============================================================================
