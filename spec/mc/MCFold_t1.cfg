SPECIFICATION Spec
CONSTANTS
  MaxDims = 3
  Lens = {1, 2, 3, 4, 5, 6, 7}
  MaxOps = 3
  OffBy = 0
  ShapeSet <- MCShapeSet
INVARIANTS
  DeclEqualsAsCoded
  MirrorIsFlatReverse
  MassWithFillZero
  Idempotent
  PolaritySymmetric
  LowerIsFill
  Emit
CHECK_DEADLOCK FALSE
