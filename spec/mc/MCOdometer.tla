---------------------------- MODULE MCOdometer ----------------------------
(* Odometer.tla with concrete LARGE constants, for TLC and the replay: one behaviour = the call history of one view       *)
(* iterator of a three-axis array (axis Removed taken out at position Pos), continued three calls past exhaustion.        *)
(* The history is too long to emit call by call; it is folded into a rolling hash that the replay recomputes from what    *)
(* the real iterator returns (offsets relative to the first element of the view, -1 for None).                           *)
EXTENDS Odometer, TLC, Json, Sequences
CONSTANTS N1, N2, N3, Removed, Pos
VARIABLES hash, nones, calls
mvars == <<c1, c2, offset, index, last, innerNone, hash, nones, calls>>

MCL1 == IF Removed = 1 THEN N2 ELSE N1
MCL2 == IF Removed = 3 THEN N2 ELSE N3
MCS1 == IF Removed = 1 THEN N3 ELSE N2 * N3
MCS2 == IF Removed = 3 THEN N3 ELSE 1

MCInit == OInit /\ hash = 0 /\ nones = 0 /\ calls = 0
MCNext == /\ nones < 3
          /\ ONext
          /\ calls' = calls + 1
          /\ nones' = IF last' = -1 THEN nones + 1 ELSE nones
          /\ hash' = (hash * 31 + last' + 7) % 1000003
MCSpec == MCInit /\ [][MCNext]_mvars

(* the reported remaining length before each call: what ExactSizeIterator::len() must say *)
LenNow == L1 * L2 - index
(* fused: once a call has returned None nothing moves any more *)
Fused == nones > 0 => (index = L1 * L2 /\ last = -1)
NoInnerNone == innerNone = FALSE

Emit == nones = 3 =>
    PrintT("REPLAY " \o ToJson([family |-> "array", shape |-> <<N1, N2, N3>>,
                                obj |-> [kind |-> "odometer", axis |-> Removed - 1, pos |-> Pos],
                                h |-> <<>>, calls |-> calls, yielded |-> index, hash |-> hash]))
=============================================================================
