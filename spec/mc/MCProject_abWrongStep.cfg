SPECIFICATION Spec
CONSTANTS
  MaxDims = 2
  Lens = {2, 3}
  OneAxisMax = 4
  LargeN = {}
  BandN = {}
  AB_WrongStep = TRUE
  FromSet <- MCFromSet
  LargeSet <- MCLargeSet
INVARIANTS
  ClosedForm
  TwoStepEqualsDirect
  MassAndSign
  SameShapeIsIdentity
  CommutesWithMarginalize
  AdmissibleIffNoReason
  LargeRowOk
  Emit
CHECK_DEADLOCK FALSE
