------------------------------ MODULE MCStatCli ------------------------------
EXTENDS StatCli
\* values chosen so that no printed value is a decimal tie: thirds and sevenths
Sp1 == [shape |-> <<5>>, cells |-> <<QI(10), QI(3), QI(2), QI(1), QI(4)>>]
Sp2 == [shape |-> <<4>>, cells |-> <<QI(7), QI(5), QI(1), QI(2)>>]
\* two populations: every ordered selection of up to three of the statistics that read counts (sum, s, pi_xy) and of those that
\* read frequencies (f2, fst) - what one statistic needs done to the spectrum must not leak into another column
Sp3 == [shape |-> <<3, 4>>, cells |-> <<QI(11), QI(3), QI(2), QI(7), QI(5), QI(13), QI(1), QI(2), QI(3), QI(1), QI(5), QI(17)>>]
MCSpectra == {Sp1, Sp2, Sp3}
Names == {"sum", "s", "pi", "theta"}
Names2 == {"sum", "s", "pi_xy", "f2", "fst"}
DistinctSeqsOf(N) == UNION {{q \in [1..n -> N] : \A a, b \in 1..n : a # b => q[a] # q[b]} : n \in 1..3}
MCStatSeqs == DistinctSeqsOf(Names) \cup DistinctSeqsOf(Names2)
MCPrecs == {<<6>>, <<0>>, <<3, 1>>, <<1, 4, 2>>, <<2, 2, 2, 2>>}
=============================================================================
