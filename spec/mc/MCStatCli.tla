------------------------------ MODULE MCStatCli ------------------------------
EXTENDS StatCli
\* values chosen so that no printed value is a decimal tie: thirds and sevenths
Sp1 == [shape |-> <<5>>, cells |-> <<QI(10), QI(3), QI(2), QI(1), QI(4)>>]
Sp2 == [shape |-> <<4>>, cells |-> <<QI(7), QI(5), QI(1), QI(2)>>]
MCSpectra == {Sp1, Sp2}
Names == {"sum", "s", "pi", "theta"}
MCStatSeqs == UNION {{q \in [1..n -> Names] : \A a, b \in 1..n : a # b => q[a] # q[b]} : n \in 1..3}
MCPrecs == {<<6>>, <<0>>, <<3, 1>>, <<1, 4, 2>>, <<2, 2, 2, 2>>}
=============================================================================
