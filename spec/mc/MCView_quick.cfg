SPECIFICATION Spec
CONSTANTS
  MaxDims = 3
  Lens = {2, 3}
  AnyOrder = FALSE
  ShapeSet <- MCShapeSet
INVARIANTS
  EqualsDocumented
  MaskExact
  NormalizedSumsToOne
  NoOptionsIsIdentity
  Emit
CHECK_DEADLOCK FALSE
