SPECIFICATION Spec
CONSTANTS
  AB_SumRule = FALSE
  ProjMode = "all"
  StrictSet = {FALSE}
  ResetOn = TRUE
  ScratchResetOn = TRUE
  ColumnOrders <- Orders3
  ListSet <- Lists3
  RecSeqSet <- MCSeq_single9
INVARIANTS
  Conservation
  FinalIsSumOfContributions
  FailsWhereExpected
  NoPartialOutput
  ExpectedOutcomeReached
  UnselectedIrrelevant
  PerRecordContribution
  Emit
CHECK_DEADLOCK FALSE
