----------------------------- MODULE MCProject -----------------------------
EXTENDS Project
CONSTANTS MaxDims, Lens, OneAxisMax, LargeN, BandN
MCFromSet == AllShapes(MaxDims, Lens) \cup {<<n>> : n \in 2..OneAxisMax}
Min(a, b) == IF a < b THEN a ELSE b
MCLargeSet ==
    \* (m = n - 100: the denominator C(n, m) is finite while numerator factors are not, or are exactly zero)
    UNION {{<<n, m, k>> : m \in {1, 2, n \div 2, n - 1, n} \cup (IF n > 1000 THEN {n - 100} ELSE {}),
                          k \in {0, 1, 2, n \div 3, n \div 2, n - 1, n}} : n \in LargeN}
    \* the band around the end of the factorial table (170! is the largest finite one): EVERY source class, so every factorial
    \* argument on either side of the table's end occurs as k, n - k, k - j and n - k - (m - j)
    \cup UNION {{<<n, m, k>> : m \in {10, n \div 2}, k \in 0..n} : n \in BandN}
=============================================================================
