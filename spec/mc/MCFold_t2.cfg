SPECIFICATION Spec
CONSTANTS
  MaxDims = 4
  Lens = {1, 2, 3, 4, 5}
  MaxOps = 2
  OffBy = 0
  ShapeSet <- MCShapeSet
INVARIANTS
  DeclEqualsAsCoded
  MirrorIsFlatReverse
  MassWithFillZero
  Idempotent
  PolaritySymmetric
  LowerIsFill
  Emit
CHECK_DEADLOCK FALSE
