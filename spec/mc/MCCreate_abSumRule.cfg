SPECIFICATION Spec
CONSTANTS
  AB_SumRule = TRUE
  ProjMode = "none"
  StrictSet = {FALSE}
  ResetOn = TRUE
  ScratchResetOn = TRUE
  ColumnOrders <- Orders2
  ListSet <- ListA
  RecSeqSet <- MCSeq_gt_small
INVARIANTS
  Conservation
  FinalIsSumOfContributions
  FailsWhereExpected
  NoPartialOutput
  ExpectedOutcomeReached
  UnselectedIrrelevant
  PerRecordContribution
  Emit
CHECK_DEADLOCK FALSE
