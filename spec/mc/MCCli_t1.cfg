SPECIFICATION Spec
CONSTANTS
  MaxDims = 4
  Lens = {1, 2, 3, 4}
  AB_Panics = FALSE
  StatShapes <- MCStatShapes
  ViewShapes <- MCViewShapes
INVARIANTS
  NoPanic
  ErrHasDiag
  OutcomeAllowed
  Emit
CHECK_DEADLOCK FALSE
