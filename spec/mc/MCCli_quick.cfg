SPECIFICATION Spec
CONSTANTS
  MaxDims = 3
  Lens = {1, 2, 3}
  AB_Panics = FALSE
  StatShapes <- MCStatShapes
  ViewShapes <- MCViewShapes
INVARIANTS
  NoPanic
  ErrHasDiag
  OutcomeAllowed
  Emit
CHECK_DEADLOCK FALSE
