---------------------------- MODULE MCArrayMem ----------------------------
EXTENDS ArrayMem
CONSTANTS MaxDims, Lens
MCShapeSet == AllShapes(MaxDims, Lens)
\* unequal lengths (so that row-major and column-major positions differ) with 3 and 4 axes
MCCatalogue == {<<2, 3, 4>>, <<4, 3, 2>>, <<3, 1, 5>>, <<2, 3, 2, 3>>, <<5, 2, 1, 3>>, <<1, 1, 4, 2>>, <<2, 2, 2, 2, 2>>}
MCAllCtors == {"new", "from_iter", "from_element", "from_zeros", "new_short", "new_long", "from_iter_short"}
MCTwoCtors == {"new", "from_zeros"}
=============================================================================
