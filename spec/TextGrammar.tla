----------------------------- MODULE TextGrammar -----------------------------
(***************************************************************************)
(* The language the plain-text spectrum reader accepts, AS BUILT           *)
(* (core/src/spectrum/io/text.rs + the format detection of io.rs), at the  *)
(* level of characters.  Grown beyond the listed properties; it backs C07  *)
(* ("the tool reads what it writes") and C16 (value count against shape)   *)
(* with the exact acceptance rule, so that a change of the accepted        *)
(* language - stricter or laxer - is noticed.                              *)
(*                                                                         *)
(* The reader is a small pipeline, one definition per stage:               *)
(*   Detect     the input starts with the six characters #SHAPE            *)
(*   HeaderLine everything up to and including the first line feed         *)
(*   Dims       the header line with every non-digit trimmed from BOTH     *)
(*              ends, split at "/", each part an unsigned decimal integer  *)
(*              (an inner part may carry a "+"; nothing else)              *)
(*   Tokens     the rest split at ASCII white space (blank, tab, LF, FF,   *)
(*              CR), each token a Rust f64 literal                         *)
(*   Count      number of tokens = product of the dimensions               *)
(* The deliberate laxness of Dims is part of the model: "#SHAPE=<-2/3/>"   *)
(* reads as shape 2/3.                                                     *)
(*                                                                         *)
(* A file is a sequence of one-character strings.  TLC evaluates the       *)
(* pipeline on every file of the scenario grammar below and emits file and *)
(* verdict; the replay feeds the same bytes to the library reader and to   *)
(* `sfs view'.                                                             *)
(***************************************************************************)
EXTENDS Naturals, Sequences, FiniteSets, TLC, Json

CONSTANTS Scenarios,         \* set of [h |-> header spelling name, b |-> body spelling name, v |-> value spelling name]
          AB_BlankOnly       \* sabotage: values are split at blanks and line feeds only

VARIABLES sc, done
vars == <<sc, done>>

(******************************* characters *******************************)
Digit == {"0", "1", "2", "3", "4", "5", "6", "7", "8", "9"}
White == IF AB_BlankOnly THEN {" ", "\n"} ELSE {" ", "\t", "\n", "\f", "\r"}
IsDigit(c) == c \in Digit
DigitVal(c) == CASE c = "0" -> 0 [] c = "1" -> 1 [] c = "2" -> 2 [] c = "3" -> 3 [] c = "4" -> 4
                 [] c = "5" -> 5 [] c = "6" -> 6 [] c = "7" -> 7 [] c = "8" -> 8 [] c = "9" -> 9

RECURSIVE Join(_)
Join(s) == IF s = <<>> THEN "" ELSE Head(s) \o Join(Tail(s))

(******************************** stages ********************************)
Magic == <<"#", "S", "H", "A", "P", "E">>
Detect(f) == Len(f) >= 6 /\ SubSeq(f, 1, 6) = Magic

FirstLf(f) == IF \E j \in 1..Len(f) : f[j] = "\n" THEN CHOOSE j \in 1..Len(f) : f[j] = "\n" /\ \A k \in 1..(j - 1) : f[k] # "\n"
              ELSE Len(f)
HeaderLine(f) == SubSeq(f, 1, FirstLf(f))
Rest(f) == SubSeq(f, FirstLf(f) + 1, Len(f))

RECURSIVE TrimStart(_)
TrimStart(s) == IF s = <<>> \/ IsDigit(Head(s)) THEN s ELSE TrimStart(Tail(s))
RECURSIVE TrimEnd(_)
TrimEnd(s) == IF s = <<>> \/ IsDigit(s[Len(s)]) THEN s ELSE TrimEnd(SubSeq(s, 1, Len(s) - 1))

(* split at every occurrence of a separator class; `keepEmpty' as str::split does, otherwise as split_ascii_whitespace *)
RECURSIVE SplitAt(_, _, _, _)
SplitAt(s, seps, keepEmpty, cur) ==
    IF s = <<>> THEN (IF keepEmpty \/ cur # <<>> THEN <<cur>> ELSE <<>>)
    ELSE IF Head(s) \in seps
         THEN (IF keepEmpty \/ cur # <<>> THEN <<cur>> ELSE <<>>) \o SplitAt(Tail(s), seps, keepEmpty, <<>>)
         ELSE SplitAt(Tail(s), seps, keepEmpty, Append(cur, Head(s)))

(* usize::from_str: an optional "+", then one or more digits; (overflow: more than 19 digits never fits) *)
UsizeOk(t) ==
    LET d == IF t # <<>> /\ Head(t) = "+" THEN Tail(t) ELSE t
    IN  d # <<>> /\ (\A j \in 1..Len(d) : IsDigit(d[j])) /\ Len(d) <= 19
RECURSIVE DecVal(_, _)
DecVal(d, acc) == IF d = <<>> THEN acc ELSE DecVal(Tail(d), acc * 10 + DigitVal(Head(d)))
UsizeVal(t) == DecVal(IF Head(t) = "+" THEN Tail(t) ELSE t, 0)       \* only used on short parts (TLC integers)

(* f64::from_str: [+-]? ( inf | infinity | nan, any case | digits [. digits*] | . digits ) ( [eE] [+-]? digits+ )? *)
Lower(c) == CASE c = "I" -> "i" [] c = "N" -> "n" [] c = "F" -> "f" [] c = "A" -> "a" [] c = "T" -> "t" [] c = "Y" -> "y" [] OTHER -> c
LowerSeq(s) == [j \in 1..Len(s) |-> Lower(s[j])]
AllDigits(s) == \A j \in 1..Len(s) : IsDigit(s[j])
ExpOk(e) ==                      \* what follows the e / E
    LET d == IF e # <<>> /\ Head(e) \in {"+", "-"} THEN Tail(e) ELSE e
    IN  d # <<>> /\ AllDigits(d)
MantissaOk(m) ==                 \* digits [. digits*] | . digits
    LET parts == SplitAt(m, {"."}, TRUE, <<>>)
    IN  /\ Len(parts) \in {1, 2}
        /\ \A j \in 1..Len(parts) : AllDigits(parts[j])
        /\ \E j \in 1..Len(parts) : parts[j] # <<>>
F64Ok(t) ==
    LET u == IF t # <<>> /\ Head(t) \in {"+", "-"} THEN Tail(t) ELSE t
        l == LowerSeq(u)
    IN  \/ l \in {<<"i", "n", "f">>, <<"i", "n", "f", "i", "n", "i", "t", "y">>, <<"n", "a", "n">>}
        \/ LET parts == SplitAt(u, {"e", "E"}, TRUE, <<>>)
           IN  /\ Len(parts) \in {1, 2}
               /\ MantissaOk(parts[1])
               /\ Len(parts) = 2 => ExpOk(parts[2])

RECURSIVE Product(_)
Product(ns) == IF ns = <<>> THEN 1 ELSE Head(ns) * Product(Tail(ns))

Verdict(f) ==
    IF ~Detect(f) THEN [accept |-> FALSE, stage |-> "detect"]
    ELSE LET parts == SplitAt(TrimEnd(TrimStart(HeaderLine(f))), {"/"}, TRUE, <<>>)
         IN  IF \E j \in 1..Len(parts) : ~UsizeOk(parts[j]) THEN [accept |-> FALSE, stage |-> "header"]
             ELSE IF \E j \in 1..Len(parts) : Len(parts[j]) > 4 THEN [accept |-> FALSE, stage |-> "count"]   \* far more cells than any body here
             ELSE LET dims == [j \in 1..Len(parts) |-> UsizeVal(parts[j])]
                      toks == SplitAt(Rest(f), White, FALSE, <<>>)
                  IN  IF \E j \in 1..Len(toks) : ~F64Ok(toks[j]) THEN [accept |-> FALSE, stage |-> "value"]
                      ELSE IF Len(toks) # Product(dims) THEN [accept |-> FALSE, stage |-> "count"]
                      ELSE [accept |-> TRUE, stage |-> "ok", shape |-> dims, ntok |-> Len(toks)]

(******************************* scenarios *******************************)
(* all files describe the 2 x 3 spectrum 1 2.5 0 4 5 6 (or try to) *)
D2 == <<"2">>   D3 == <<"3">>
Canon == Magic \o <<"=", "<">> \o D2 \o <<"/">> \o D3 \o <<">">>
Header(h) ==
    CASE h = "canonical"     -> Canon \o <<"\n">>
      [] h = "crlf"          -> Canon \o <<"\r", "\n">>
      [] h = "no_equals"     -> Magic \o <<"<">> \o D2 \o <<"/">> \o D3 \o <<">", "\n">>
      [] h = "no_brackets"   -> Magic \o <<"=">> \o D2 \o <<"/">> \o D3 \o <<"\n">>
      [] h = "trailing_slash" -> Magic \o <<"=", "<">> \o D2 \o <<"/">> \o D3 \o <<"/", ">", "\n">>
      [] h = "leading_slash" -> Magic \o <<"=", "<", "/">> \o D2 \o <<"/">> \o D3 \o <<">", "\n">>
      [] h = "double_slash"  -> Magic \o <<"=", "<">> \o D2 \o <<"/", "/">> \o D3 \o <<">", "\n">>
      [] h = "outer_blanks"  -> Magic \o <<"=", "<", " ">> \o D2 \o <<"/">> \o D3 \o <<" ", ">", "\n">>
      [] h = "inner_blanks"  -> Magic \o <<"=", "<">> \o D2 \o <<" ", "/", " ">> \o D3 \o <<">", "\n">>
      [] h = "plus_signs"    -> Magic \o <<"=", "<", "+">> \o D2 \o <<"/", "+">> \o D3 \o <<">", "\n">>
      [] h = "minus_first"   -> Magic \o <<"=", "<", "-">> \o D2 \o <<"/">> \o D3 \o <<">", "\n">>
      [] h = "minus_second"  -> Magic \o <<"=", "<">> \o D2 \o <<"/", "-">> \o D3 \o <<">", "\n">>
      [] h = "junk_after"    -> Canon \o <<"x", "7", "\n">>
      [] h = "digit_before"  -> Magic \o <<"7", "=", "<">> \o D2 \o <<"/">> \o D3 \o <<">", "\n">>
      [] h = "lowercase"     -> <<"#", "s", "h", "a", "p", "e", "=", "<">> \o D2 \o <<"/">> \o D3 \o <<">", "\n">>
      [] h = "leading_blank" -> <<" ">> \o Canon \o <<"\n">>
      [] h = "empty_dims"    -> Magic \o <<"=", "<", ">", "\n">>
      [] h = "huge_dim"      -> Magic \o <<"=", "<">> \o [j \in 1..21 |-> "9"] \o <<">", "\n">>
      [] h = "flat_six"      -> Magic \o <<"=", "<", "6", ">", "\n">>
      [] h = "leading_zeros" -> Magic \o <<"=", "<", "0", "0", "2", "/", "0", "3", ">", "\n">>
      [] h = "no_newline"    -> Canon                                  \* the whole input is the header line
HeaderNames == {"canonical", "crlf", "no_equals", "no_brackets", "trailing_slash", "leading_slash", "double_slash", "outer_blanks",
                "inner_blanks", "plus_signs", "minus_first", "minus_second", "junk_after", "digit_before", "lowercase",
                "leading_blank", "empty_dims", "huge_dim", "flat_six", "leading_zeros", "no_newline"}

(* spellings of ONE value (the second of the six): valid and invalid f64 literals *)
Value(v) ==
    CASE v = "plain" -> <<"2", ".", "5">>        [] v = "int" -> <<"7">>
      [] v = "dot_end" -> <<"2", ".">>            [] v = "dot_start" -> <<".", "5">>
      [] v = "plus" -> <<"+", "2">>               [] v = "minus_zero" -> <<"-", "0">>
      [] v = "exp" -> <<"1", "e", "3">>           [] v = "exp_upper" -> <<"1", "E", "-", "3">>
      [] v = "exp_plus" -> <<"2", ".", "5", "e", "+", "2">>
      [] v = "inf" -> <<"i", "n", "f">>           [] v = "neg_infinity" -> <<"-", "I", "n", "f", "i", "n", "i", "t", "y">>
      [] v = "nan" -> <<"N", "a", "N">>
      [] v = "dot_only" -> <<".">>                [] v = "exp_empty" -> <<"1", "e">>
      [] v = "exp_sign_only" -> <<"1", "e", "+">> [] v = "exp_only" -> <<"e", "5">>
      [] v = "comma" -> <<"2", ",", "5">>         [] v = "hex" -> <<"0", "x", "1", "0">>
      [] v = "underscore" -> <<"1", "_", "0">>    [] v = "two_dots" -> <<"1", ".", "2", ".", "3">>
      [] v = "double_sign" -> <<"-", "-", "1">>   [] v = "suffix" -> <<"1", "f">>
      [] v = "sign_only" -> <<"+">>               [] v = "infx" -> <<"i", "n", "f", "x">>
ValueNames == {"plain", "int", "dot_end", "dot_start", "plus", "minus_zero", "exp", "exp_upper", "exp_plus", "inf", "neg_infinity",
               "nan", "dot_only", "exp_empty", "exp_sign_only", "exp_only", "comma", "hex", "underscore", "two_dots",
               "double_sign", "suffix", "sign_only", "infx"}

Vals(v) == <<<<"1">>, Value(v), <<"0">>, <<"4">>, <<"5">>, <<"6">>>>
RECURSIVE JoinWith(_, _)
JoinWith(ts, sep) == IF Len(ts) = 1 THEN ts[1] ELSE ts[1] \o sep \o JoinWith(Tail(ts), sep)
Body(b, v) ==
    CASE b = "single_blank"  -> JoinWith(Vals(v), <<" ">>) \o <<"\n">>
      [] b = "no_final_lf"   -> JoinWith(Vals(v), <<" ">>)
      [] b = "double_blank"  -> JoinWith(Vals(v), <<" ", " ">>) \o <<"\n">>
      [] b = "tabs"          -> JoinWith(Vals(v), <<"\t">>) \o <<"\n">>
      [] b = "one_per_line"  -> JoinWith(Vals(v), <<"\n">>) \o <<"\n">>
      [] b = "crlf_lines"    -> JoinWith(Vals(v), <<"\r", "\n">>) \o <<"\r", "\n">>
      [] b = "formfeed"      -> JoinWith(Vals(v), <<"\f">>) \o <<"\n">>
      [] b = "leading_ws"    -> <<"\n", " ", "\t">> \o JoinWith(Vals(v), <<" ">>) \o <<" ", " ", "\n", "\n">>
      [] b = "rows"          -> JoinWith(SubSeq(Vals(v), 1, 3), <<" ">>) \o <<"\n">> \o JoinWith(SubSeq(Vals(v), 4, 6), <<" ">>) \o <<"\n">>
      [] b = "commas"        -> JoinWith(Vals(v), <<",">>) \o <<"\n">>
      [] b = "semicolons"    -> JoinWith(Vals(v), <<";", " ">>) \o <<"\n">>
      [] b = "five"          -> JoinWith(SubSeq(Vals(v), 1, 5), <<" ">>) \o <<"\n">>
      [] b = "seven"         -> JoinWith(Vals(v), <<" ">>) \o <<" ", "9", "\n">>
      [] b = "empty"         -> <<>>
BodyNames == {"single_blank", "no_final_lf", "double_blank", "tabs", "one_per_line", "crlf_lines", "formfeed", "leading_ws", "rows",
              "commas", "semicolons", "five", "seven", "empty"}

File(s) == Header(s.h) \o Body(s.b, s.v)

(******************************** machine ********************************)
Init == sc \in Scenarios /\ done = FALSE
Observe == ~done /\ done' = TRUE /\ UNCHANGED sc
Next == Observe
Spec == Init /\ [][Next]_vars

(******************************* properties *******************************)
(* what the tool writes is what it reads: the canonical spelling is accepted with the right shape *)
CanonicalAccepted ==
    (sc.h = "canonical" /\ sc.b \in {"single_blank", "no_final_lf"} /\ F64Ok(Value(sc.v))) =>
        LET r == Verdict(File(sc)) IN r.accept /\ r.shape = <<2, 3>> /\ r.ntok = 6

(* C16 at the level of characters: an accepted file has exactly as many value tokens as its header announces *)
AcceptedMeansCountMatches ==
    LET r == Verdict(File(sc)) IN r.accept => r.ntok = Product(r.shape)

(* white space is white space: every separator spelling that only uses the five white-space characters is equivalent *)
WhitespaceInsensitive ==
    (sc.h # "no_newline" /\ sc.b \in {"double_blank", "tabs", "one_per_line", "crlf_lines", "formfeed", "leading_ws", "rows", "no_final_lf"}) =>
        Verdict(File(sc)).accept = Verdict(File([sc EXCEPT !.b = "single_blank"])).accept

Emit ==
    done => PrintT("REPLAY " \o ToJson([family |-> "textgrammar", sc |-> sc, file |-> Join(File(sc)), verdict |-> Verdict(File(sc))]))
=============================================================================
