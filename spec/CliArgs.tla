------------------------------- MODULE CliArgs -------------------------------
(***************************************************************************)
(* The command-line grammar of `sfs' and the rule that decides where the   *)
(* input comes from (grown beyond the listed properties; bound to C17:     *)
(* a contradictory command line is a diagnosed usage error, never an       *)
(* `unreachable!()').                                                      *)
(*                                                                         *)
(* One invocation = one behaviour:                                         *)
(*     Start -> Consume* -> Validate -> (Usage | ResolveInput -> Run/Err)  *)
(* The parser consumes the option occurrences of the command line one by   *)
(* one and only counts them (state `seen'); validation happens once at the *)
(* end, as clap does.  An occurrence is an option of the tool's table with *)
(* a well-formed value, or a deliberately malformed token.                 *)
(*                                                                         *)
(* The option tables are written from cli/src/{main,create,view,fold,      *)
(* stat}.rs: kind "flag" and "single" may be given once, "append" and      *)
(* "count" any number of times; options of one exclusive group exclude     *)
(* each other (the same option may still repeat if it is "append");        *)
(* `conflicts' lists further exclusions (--strict against the projection   *)
(* group, --quiet against --verbose).                                      *)
(*                                                                         *)
(* Input resolution (core/src/input.rs, Input::new):                       *)
(*   a path AND a stdin that is not a terminal  -> error "both"            *)
(*   no path AND a terminal on stdin            -> error "no input"        *)
(* unless SFS_ALLOW_STDIN is set, which disables both tests.               *)
(***************************************************************************)
EXTENDS Naturals, Sequences, FiniteSets, TLC, Json

CONSTANTS
    Tools,               \* set of tool names
    Table(_),            \* tool -> set of [name, kind, group, conflicts, required]
    MaxOccurrences,      \* command lines have at most this many option occurrences
    Malformed,           \* set of malformed tokens: [why |-> ..]
    StdinKinds,          \* "tty" | "data" (a pipe carrying a valid input) | "null" (/dev/null)
    AB_NoGroups          \* sabotage: exclusive groups are not enforced (both members reach the `unreachable!()')

VARIABLES
    tool, line,          \* the scenario: tool and command line (sequence of occurrences)
    path, stdin, allow,  \* input scenario: path given?, what stdin is, SFS_ALLOW_STDIN set?
    i, seen, bad,        \* parser state: position, occurrences counted per option name, malformed token seen
    phase, outcome

vars == <<tool, line, path, stdin, allow, i, seen, bad, phase, outcome>>

Names(t) == {o.name : o \in Table(t)}
Opt(t, n) == CHOOSE o \in Table(t) : o.name = n

Occurrences(t) == [k : {"opt"}, name : Names(t)] \cup [k : {"bad"}, why : Malformed]
Lines(t) == UNION {[1..n -> Occurrences(t)] : n \in 0..MaxOccurrences}

Plain(t, l) == /\ Len(l) = Cardinality({o \in Table(t) : o.required})
               /\ \A j \in 1..Len(l) : l[j].k = "opt" /\ Opt(t, l[j].name).required

Init ==
    /\ tool \in Tools
    /\ line \in Lines(tool)
    /\ path \in BOOLEAN /\ stdin \in StdinKinds /\ allow \in BOOLEAN
    \* the input scenario is only varied on command lines that carry nothing but what the tool requires (the two
    \* concerns are independent); all other lines name a file and run with the test switched off
    /\ ~Plain(tool, line) => (path = TRUE /\ stdin = "null" /\ allow = TRUE)
    /\ i = 0 /\ seen = [n \in Names(tool) |-> 0] /\ bad = FALSE
    /\ phase = "parse" /\ outcome = "running"

Consume ==
    /\ phase = "parse" /\ i < Len(line)
    /\ i' = i + 1
    /\ LET o == line[i + 1]
       IN  IF o.k = "bad" THEN bad' = TRUE /\ seen' = seen
           ELSE bad' = bad /\ seen' = [seen EXCEPT ![o.name] = @ + 1]
    /\ UNCHANGED <<tool, line, path, stdin, allow, phase, outcome>>

Present(n) == seen[n] > 0
RepeatedOnce == \E n \in Names(tool) : Opt(tool, n).kind \in {"flag", "single"} /\ seen[n] > 1
GroupClash == \E a, b \in Names(tool) : a # b /\ Present(a) /\ Present(b)
                  /\ Opt(tool, a).group # "" /\ Opt(tool, a).group = Opt(tool, b).group
ConflictClash == \E a, b \in Names(tool) : Present(a) /\ Present(b)
                  /\ (b \in Opt(tool, a).conflicts \/ (Opt(tool, b).group # "" /\ Opt(tool, b).group \in Opt(tool, a).conflicts))
MissingRequired == \E o \in Table(tool) : o.required /\ seen[o.name] = 0

UsageError == bad \/ RepeatedOnce \/ (GroupClash /\ ~AB_NoGroups) \/ ConflictClash \/ MissingRequired

Validate ==
    /\ phase = "parse" /\ i = Len(line)
    /\ IF UsageError THEN phase' = "exit" /\ outcome' = "usage"
       ELSE IF GroupClash THEN phase' = "exit" /\ outcome' = "panic"      \* only reachable with AB_NoGroups
       ELSE phase' = "input" /\ outcome' = outcome
    /\ UNCHANGED <<tool, line, path, stdin, allow, i, seen, bad>>

(* where the input comes from *)
InputVerdict ==
    IF ~allow /\ path /\ stdin # "tty" THEN "err_both"
    ELSE IF ~allow /\ ~path /\ stdin = "tty" THEN "err_none"
    ELSE IF path THEN "run"
    ELSE IF stdin = "data" THEN "run"
    ELSE "err_empty"                       \* nothing readable on stdin (/dev/null, or a terminal that is hung up)

ResolveInput ==
    /\ phase = "input"
    /\ phase' = "exit"
    /\ outcome' = InputVerdict
    /\ UNCHANGED <<tool, line, path, stdin, allow, i, seen, bad>>

Next == Consume \/ Validate \/ ResolveInput
Spec == Init /\ [][Next]_vars

(******************************* properties *******************************)
NoPanic == outcome # "panic"

(* the verdict of the parser is a function of WHICH options occur how often - never of their order *)
Count(l, n) == Cardinality({j \in 1..Len(l) : l[j].k = "opt" /\ l[j].name = n})
HasBad(l) == \E j \in 1..Len(l) : l[j].k = "bad"
OrderFree ==
    phase = "exit" =>
        /\ \A n \in Names(tool) : seen[n] = Count(line, n)
        /\ bad = HasBad(line)

(* members of one exclusive group never both reach the tool *)
ExclusiveGroupsRespected ==
    (phase \in {"input", "exit"} /\ outcome # "usage") => ~GroupClash

Emit ==
    phase = "exit" =>
        PrintT("REPLAY " \o ToJson([family |-> "cliargs", tool |-> tool, line |-> line, path |-> path, stdin |-> stdin,
                                    allow |-> allow, outcome |-> outcome]))
=============================================================================
