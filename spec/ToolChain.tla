------------------------------ MODULE ToolChain ------------------------------
(***************************************************************************)
(* C07: the tool reads what it writes.  A behaviour is a chain of real     *)
(* process invocations: a producer (create, or view/fold of a seed file)   *)
(* writes a spectrum artefact in some format, at some precision, to a file *)
(* or a pipe; zero or more transformers (view, fold) read it with          *)
(* auto-detected format and write another; a consumer (view, fold, stat)   *)
(* ends the chain.  The state is the artefact in flight.                   *)
(*                                                                         *)
(* What the model tracks and TLC checks in every state:                    *)
(*   - the first six bytes of every artefact identify its format and no    *)
(*     other (text always begins #SHAPE, npy always begins with the magic),*)
(*     so auto-detection returns the written format;                       *)
(*   - the shape is never changed by view / fold / format conversion;      *)
(*   - `bound': the exact worst-case distance (module Q) between the       *)
(*     values in flight and the values obtained with exact arithmetic:     *)
(*     each text hop at precision p adds half a unit of the p-th decimal,  *)
(*     npy hops add nothing, a fold at most doubles what is there.         *)
(* kind = "roundtrip": library write -> read for shapes x formats x        *)
(* precisions.  kind = "digits": printed values with at most 15            *)
(* significant digits survive text -> npy -> text unchanged.               *)
(***************************************************************************)
EXTENDS Shapes, Q, TLC, Json

CONSTANTS
    MaxSteps,           \* transformers + consumer after the producer
    Precisions,         \* text precisions used along chains
    RoundTripShapes, RoundTripPrecisions,
    DigitMantissas, DigitExponents,
    FileNames,          \* names under which an artefact may be stored
    AB_LowercaseHeader  \* sabotage: a text writer whose header does not start with the detected magic

VARIABLES kind, art, steps, bound, folds, closed
vars == <<kind, art, steps, bound, folds, closed>>

Formats == {"text", "npy"}
Vias == {"file", "pipe", "fifo"}     \* fifo (producers only): handed over through a named pipe whose PATH is given to the reader

HalfUnit(p) == QDiv(QMk(1, 2), QPow(QI(10), p))

(* first six bytes of an artefact *)
First6(a) == IF a.fmt = "text" THEN (IF AB_LowercaseHeader THEN "#shape" ELSE "#SHAPE") ELSE "\\x93NUMPY"
Detect(h) == CASE h = "#SHAPE" -> "text" [] h = "\\x93NUMPY" -> "npy" [] OTHER -> "none"

Step(tool, fmt, prec, via) == [tool |-> tool, fmt |-> fmt, prec |-> prec, via |-> via, stale |-> FALSE]
(* a file destination may already exist and hold older, LONGER content: writing replaces it entirely *)
StepOver(tool, fmt, prec, via, stale) == [tool |-> tool, fmt |-> fmt, prec |-> prec, via |-> via, stale |-> stale]

Init ==
    \/ /\ kind = "chain"
       \* producers: the create tool, small seeds, "big" (more than a stdout buffer) and "huge" (257 x 257 = 66049 cells: more
       \* than 2^16 values, more than a megabyte of text) spectra in both formats
       /\ \E src \in {"create", "seedtext", "seednpy", "bigtext", "bignpy", "hugetext", "hugenpy"}, via \in Vias :
            /\ art = [fmt |-> IF src \in {"seednpy", "bignpy", "hugenpy"} THEN "npy" ELSE "text", via |-> via,
                      prec |-> IF src = "create" THEN 0 ELSE 17]
            /\ steps = <<Step(src, art.fmt, art.prec, via)>>
       /\ bound = QZero /\ folds = 0 /\ closed = FALSE
    \/ /\ kind = "roundtrip"
       /\ \E sh \in RoundTripShapes, f \in Formats, p \in RoundTripPrecisions :
            art = [fmt |-> f, prec |-> p, shape |-> sh, via |-> "file"]
       /\ steps = <<>> /\ bound = QZero /\ folds = 0 /\ closed = TRUE
    \* kind = "named": a tool-written artefact stored under a file name whose extension says nothing, or the WRONG thing,
    \* about its format (`sfs fold -o folded.npy` writes text): consumers go by the first bytes, never by the name
    \/ /\ kind = "named"
       /\ \E f \in Formats, n \in FileNames, c \in {"view", "fold", "stat"} :
            art = [fmt |-> f, name |-> n, consumer |-> c, via |-> "file", prec |-> 6]
       /\ steps = <<>> /\ bound = QZero /\ folds = 0 /\ closed = TRUE
    \/ /\ kind = "digits"
       /\ \E m \in DigitMantissas, e \in DigitExponents : art = [fmt |-> "text", m |-> m, e |-> e, via |-> "pipe", prec |-> 0]
       /\ steps = <<>> /\ bound = QZero /\ folds = 0 /\ closed = TRUE

Open == kind = "chain" /\ ~closed /\ Len(steps) <= MaxSteps

(* view: any output format / precision / destination; values unchanged up to the text rounding *)
View(fmt, prec, via, last, stale) ==
    /\ Open /\ (stale => via = "file")
    /\ art' = [fmt |-> fmt, via |-> via, prec |-> prec]
    /\ bound' = IF fmt = "text" THEN QAdd(bound, HalfUnit(prec)) ELSE bound
    /\ steps' = Append(steps, StepOver("view", fmt, prec, via, stale))
    /\ closed' = last
    /\ UNCHANGED <<kind, folds>>

(* fold writes text only; a folded value is a sum or average of two input values *)
Fold(prec, via, last, stale) ==
    /\ Open /\ (stale => via = "file")
    /\ art' = [fmt |-> "text", via |-> via, prec |-> prec]
    /\ bound' = QAdd(QMul(QI(2), bound), HalfUnit(prec))
    /\ steps' = Append(steps, StepOver("fold", "text", prec, via, stale))
    /\ folds' = folds + 1
    /\ closed' = last
    /\ UNCHANGED kind

Stat == /\ Open
        /\ steps' = Append(steps, Step("stat", "text", 12, "pipe"))
        /\ closed' = TRUE
        /\ UNCHANGED <<kind, art, bound, folds>>

Next ==
    \/ \E f \in Formats, p \in Precisions, v \in {"file", "pipe"}, l \in BOOLEAN, st \in BOOLEAN :
           (f = "npy" => p = 6) /\ (l => v = "pipe") /\ View(f, p, v, l, st)
    \/ \E p \in Precisions, v \in {"file", "pipe"}, l \in BOOLEAN, st \in BOOLEAN : (l => v = "pipe") /\ Fold(p, v, l, st)
    \/ Stat

Spec == Init /\ [][Next]_vars

(******************************* invariants *******************************)
DetectedAsWritten == kind \in {"chain", "named"} => Detect(First6(art)) = art.fmt
HeadsDistinct == Detect("#SHAPE") # Detect("\\x93NUMPY")
BoundIsFinite == kind = "chain" => ~QLt(bound, QZero)
(* a text artefact carries the precision of the step that wrote it: that many decimals are what the next reader sees, and *)
(* what the half-unit bound above is about (the replay counts the decimals of every value of every text artefact)         *)
CarriesRequestedPrecision ==
    (kind = "chain" /\ Len(steps) > 1 /\ steps[Len(steps)].tool \in {"view", "fold"} /\ art.fmt = "text")
        => art.prec = steps[Len(steps)].prec

Done == closed \/ (kind = "chain" /\ Len(steps) > MaxSteps)

Emit ==
    Done =>
        CASE kind = "chain" ->
                PrintT("REPLAY " \o ToJson([family |-> "toolchain", kind |-> "chain", steps |-> steps,
                                            folds |-> folds, bound |-> QSci(bound, 20), closed |-> closed]))
          [] kind = "roundtrip" ->
                PrintT("REPLAY " \o ToJson([family |-> "toolchain", kind |-> "roundtrip", shape |-> art.shape,
                                            fmt |-> art.fmt, prec |-> art.prec, half_unit |-> QSci(HalfUnit(art.prec), 20)]))
          [] kind = "named" ->
                PrintT("REPLAY " \o ToJson([family |-> "toolchain", kind |-> "named", fmt |-> art.fmt, name |-> art.name,
                                            consumer |-> art.consumer]))
          [] kind = "digits" ->
                PrintT("REPLAY " \o ToJson([family |-> "toolchain", kind |-> "digits", m |-> art.m, e |-> art.e]))
=============================================================================
