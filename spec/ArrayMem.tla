------------------------------ MODULE ArrayMem ------------------------------
(***************************************************************************)
(* The array as MEMORY (C19, "indexing by it returns the element at that   *)
(* position", with the mutating half of the API): construction, writes     *)
(* through every mutable access path, and what every read path observes    *)
(* afterwards.  ArrayApi.tla fixes the contents (cell p holds p) and       *)
(* explores call histories of the iterators; this module fixes the reads   *)
(* (everything is read back after every step) and explores histories of    *)
(* WRITES.                                                                 *)
(*                                                                         *)
(* Two descriptions, compared by TLC in every reachable state:             *)
(*   - operational (shaped like the code): one flat vector `mem'; a write  *)
(*     at a multi-index goes to position  sum_j stride_j * idx_j  after    *)
(*     the bounds test of Strides::flat_index;                             *)
(*   - declarative: the value of cell p is the value of the LAST write in  *)
(*     the history that covers p (a write at idx covers the one cell whose *)
(*     coordinates are idx; a slice write at q covers q; a fill covers     *)
(*     every cell), and the constructor's value if there is none.          *)
(* Every terminal state is emitted and replayed on sfs_core::Array<f64>:   *)
(* after each step the harness reads the whole array back through          *)
(* as_slice, iter, get/Index at every index of iter_indices, every axis    *)
(* view (get_axis / index_axis / iter_axis, via iter and to_array), sum     *)
(* along every axis, and a clone compared with ==.                         *)
(***************************************************************************)
EXTENDS Shapes, TLC, Json

CONSTANTS
    ShapeSet,        \* shapes explored
    Ctors,           \* constructors explored: subset of {"new", "from_iter", "from_element", "from_zeros", "new_short", "new_long", "from_iter_short"}
    MaxOps,          \* writes per history
    MaxCellsFull,    \* arrays with more cells only explore writes at the corner cells and the probes
    AB_ColumnMajorWrite   \* sabotage: get_mut computes the position with column-major strides

VARIABLES shape, ctor, mem, h
vars == <<shape, ctor, mem, h>>

N == Elements(shape)

(* value written by the k-th step: distinct from every initial value and from every other step *)
ValOf(k) == 1000 + k

(***************************** construction *****************************)
InitCell(c, p) == CASE c \in {"new", "from_iter"} -> p
                    [] c = "from_element" -> 7
                    [] c = "from_zeros" -> 0
                    [] OTHER -> -1
Fails(c) == c \in {"new_short", "new_long", "from_iter_short"}

(******************************* writes *******************************)
(* Out-of-range probes of get_mut: one coordinate equal to its length, a too short and a too long index *)
Probes(sh) ==
    {[i \in 1..Len(sh) |-> IF i = a THEN sh[i] ELSE 0] : a \in 1..Len(sh)}
        \cup {[i \in 1..(Len(sh) + 1) |-> 0]}
        \cup (IF Len(sh) > 1 THEN {[i \in 1..(Len(sh) - 1) |-> 0]} ELSE {})

Corner(sh, idx) == \A i \in 1..Len(sh) : idx[i] \in {0, sh[i] - 1}

WriteIdxs(sh) == IF Elements(sh) <= MaxCellsFull THEN IndexSpace(sh) ELSE {idx \in IndexSpace(sh) : Corner(sh, idx)}
WriteFlats(sh) == IF Elements(sh) <= MaxCellsFull THEN FlatSpace(sh) ELSE {p \in FlatSpace(sh) : Corner(sh, Unflat(sh, p))}

(* operational position of get_mut: bounds test per axis, then the dot product with the strides *)
ColStrides(sh) == [i \in 1..Len(sh) |-> Elements(SubSeq(sh, 1, i - 1))]
Position(sh, idx) ==
    IF Len(idx) # Len(sh) THEN -1
    ELSE IF \E i \in 1..Len(sh) : idx[i] >= sh[i] THEN -1
    ELSE IF AB_ColumnMajorWrite THEN DotFrom(ColStrides(sh), idx, 1)
    ELSE DotFrom(Strides(sh), idx, 1)

Ops(sh) == [op : {"get_mut", "index_mut_via_get"}, idx : WriteIdxs(sh)]
               \cup [op : {"get_mut"}, idx : Probes(sh)]
               \cup [op : {"slice"}, p : WriteFlats(sh)]
               \cup [op : {"fill", "iter_mut_add"}]

Apply(m, sh, o, v) ==
    CASE o.op \in {"get_mut", "index_mut_via_get"} ->
            LET q == Position(sh, o.idx) IN IF q < 0 THEN m ELSE [m EXCEPT ![q + 1] = v]
      [] o.op = "slice" -> [m EXCEPT ![o.p + 1] = v]
      [] o.op = "fill" -> [p \in 1..Len(m) |-> v]
      [] o.op = "iter_mut_add" -> [p \in 1..Len(m) |-> m[p] + v]

Result(sh, o) ==
    IF o.op \in {"get_mut", "index_mut_via_get"} THEN (IF Position(sh, o.idx) < 0 THEN "none" ELSE "some") ELSE "done"

Init ==
    /\ shape \in ShapeSet
    /\ ctor \in Ctors
    /\ mem = IF Fails(ctor) THEN <<>> ELSE [p \in 1..Elements(shape) |-> InitCell(ctor, p - 1)]
    /\ h = <<>>

Write ==
    /\ ~Fails(ctor)
    /\ Len(h) < MaxOps
    /\ \E o \in Ops(shape) :
          LET v == ValOf(Len(h) + 1)
              m2 == Apply(mem, shape, o, v)
          IN  /\ mem' = m2
              /\ h' = Append(h, [o |-> o, v |-> v, res |-> Result(shape, o), mem |-> m2])
    /\ UNCHANGED <<shape, ctor>>

Next == Write
Spec == Init /\ [][Next]_vars

Done == Fails(ctor) \/ Len(h) = MaxOps

(***************************** declarative *****************************)
Covers(sh, o, p) ==
    CASE o.op \in {"get_mut", "index_mut_via_get"} -> InBounds(sh, o.idx) /\ Unflat(sh, p) = o.idx
      [] o.op = "slice" -> o.p = p
      [] OTHER -> TRUE

(* value of cell p after the first k steps of the history *)
RECURSIVE CellAfter(_, _)
CellAfter(p, k) ==
    IF k = 0 THEN InitCell(ctor, p)
    ELSE LET e == h[k] IN
         IF ~Covers(shape, e.o, p) THEN CellAfter(p, k - 1)
         ELSE IF e.o.op = "iter_mut_add" THEN CellAfter(p, k - 1) + e.v
         ELSE e.v

(* C19 with writes: every cell holds what the last write that covers it stored; no other cell moved *)
LastWriteWins == Fails(ctor) \/ \A p \in FlatSpace(shape) : mem[p + 1] = CellAfter(p, Len(h))

(* a write at an in-range index is acknowledged, any other is refused and changes nothing *)
RefusedWritesChangeNothing ==
    \A k \in 1..Len(h) :
        LET e == h[k] IN
        e.o.op \in {"get_mut", "index_mut_via_get"} =>
            /\ (e.res = "some") = InBounds(shape, e.o.idx)
            /\ e.res = "none" => e.mem = (IF k = 1 THEN [p \in 1..N |-> InitCell(ctor, p - 1)] ELSE h[k - 1].mem)

(* the length of the memory never changes and equals the number of cells of the shape *)
SizeFixed == Fails(ctor) \/ (Len(mem) = N /\ \A k \in 1..Len(h) : Len(h[k].mem) = N)

Emit ==
    Done => PrintT("REPLAY " \o ToJson([family |-> "arraymem", shape |-> shape, ctor |-> ctor,
                                        init |-> IF Fails(ctor) THEN <<>> ELSE [p \in 1..N |-> InitCell(ctor, p - 1)],
                                        h |-> h]))
=============================================================================
