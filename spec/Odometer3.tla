------------------------------ MODULE Odometer3 ------------------------------
(* Odometer.tla for a view with THREE axes (a view of a four-axis array): two nested carries.  Same reading: one step = one  *)
(* call of next(); IndInv is inductive (Apalache) for lengths and strides of any size; mc/MCOdometer3 runs it on large      *)
(* concrete constants with TLC and the history is replayed on the real iterator.                                         *)
EXTENDS Integers
CONSTANTS
    \* @type: Int;
    L1,
    \* @type: Int;
    L2,
    \* @type: Int;
    L3,
    \* @type: Int;
    S1,
    \* @type: Int;
    S2,
    \* @type: Int;
    S3,
    \* @type: Bool;
    AB_NoBackstride    \* sabotage: the outer carry forgets to take the middle axis back to its start
VARIABLES
    \* @type: Int;
    c1,
    \* @type: Int;
    c2,
    \* @type: Int;
    c3,
    \* @type: Int;
    offset,
    \* @type: Int;
    index,
    \* @type: Int;
    last,
    \* @type: Bool;
    innerNone

Sizes == /\ L1 \in Int /\ L2 \in Int /\ L3 \in Int /\ S1 \in Int /\ S2 \in Int /\ S3 \in Int
         /\ L1 >= 1 /\ L2 >= 1 /\ L3 >= 1 /\ S1 >= 0 /\ S2 >= 0 /\ S3 >= 0
ConstInit == Sizes /\ AB_NoBackstride = FALSE
ConstInitAB == Sizes /\ AB_NoBackstride = TRUE
Back2 == IF AB_NoBackstride THEN 0 ELSE S2 * (L2 - 1)
Cells == L1 * L2 * L3
OInit == c1 = 0 /\ c2 = 0 /\ c3 = 0 /\ offset = 0 /\ index = 0 /\ last = -2 /\ innerNone = FALSE

Exhausted == index >= Cells /\ last' = -1 /\ UNCHANGED <<c1, c2, c3, offset, index, innerNone>>
First == index < Cells /\ index = 0 /\ index' = 1 /\ last' = 0 /\ UNCHANGED <<c1, c2, c3, offset, innerNone>>
Inner == /\ index < Cells /\ index # 0 /\ c3 + 1 < L3
         /\ c3' = c3 + 1 /\ offset' = offset + S3 /\ index' = index + 1 /\ last' = offset + S3
         /\ UNCHANGED <<c1, c2, innerNone>>
Carry2 == /\ index < Cells /\ index # 0 /\ ~(c3 + 1 < L3) /\ c2 + 1 < L2
          /\ c3' = 0 /\ c2' = c2 + 1
          /\ offset' = offset - S3 * (L3 - 1) + S2 /\ last' = offset - S3 * (L3 - 1) + S2
          /\ index' = index + 1 /\ UNCHANGED <<c1, innerNone>>
Carry1 == /\ index < Cells /\ index # 0 /\ ~(c3 + 1 < L3) /\ ~(c2 + 1 < L2) /\ c1 + 1 < L1
          /\ c3' = 0 /\ c2' = 0 /\ c1' = c1 + 1
          /\ offset' = offset - S3 * (L3 - 1) - Back2 + S1 /\ last' = offset - S3 * (L3 - 1) - Back2 + S1
          /\ index' = index + 1 /\ UNCHANGED innerNone
Overrun == /\ index < Cells /\ index # 0 /\ ~(c3 + 1 < L3) /\ ~(c2 + 1 < L2) /\ ~(c1 + 1 < L1)
           /\ c3' = 0 /\ c2' = 0 /\ c1' = c1 + 1
           /\ offset' = offset - S3 * (L3 - 1) - S2 * (L2 - 1)
           /\ last' = -1 /\ innerNone' = TRUE /\ UNCHANGED index
ONext == Exhausted \/ First \/ Inner \/ Carry2 \/ Carry1 \/ Overrun

Rank == (c1 * L2 + c2) * L3 + c3
IndInv ==
    /\ c1 \in Int /\ c2 \in Int /\ c3 \in Int /\ offset \in Int /\ index \in Int /\ last \in Int /\ innerNone \in BOOLEAN
    /\ c1 >= 0 /\ c1 < L1 /\ c2 >= 0 /\ c2 < L2 /\ c3 >= 0 /\ c3 < L3
    /\ offset = c1 * S1 + c2 * S2 + c3 * S3
    /\ index >= 0 /\ index <= Cells
    /\ (index = 0 => (c1 = 0 /\ c2 = 0 /\ c3 = 0))
    /\ (index > 0 => index = Rank + 1)
    /\ innerNone = FALSE
    /\ last \in {-2, -1} \/ last = offset
    /\ (last = -2) <=> (index = 0)
    /\ (last = -1) => index = Cells
=============================================================================
