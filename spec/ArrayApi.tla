------------------------------ MODULE ArrayApi ------------------------------
(***************************************************************************)
(* The N-dimensional array API of sfs-core (C19): indexing, axis views and *)
(* the three odometer-style iterators, each as a state machine whose       *)
(* behaviours are call histories continued past exhaustion.                *)
(*                                                                         *)
(* The array under test holds, in cell p, the number p (its own flat       *)
(* row-major position), so every returned element identifies the cell it   *)
(* came from.                                                              *)
(*                                                                         *)
(* Two descriptions are given for everything and TLC checks them against   *)
(* each other in every reachable state:                                    *)
(*   - declarative (from the property statement): sets of cells, ordered;  *)
(*   - operational (shaped like the code): cursors advanced in place -     *)
(*     `pos' for IndicesIter, `i' for AxisIter, and the odometer           *)
(*     <<coords, offset, index>> with back-strides for view::Iter.         *)
(* The as-built deviations found while reading the code are named          *)
(* constants (prefix AB_): with all of them FALSE the module is the reference *)
(* that the implementation is bound to; switching one on must make TLC     *)
(* report an invariant violation (non-vacuity, see mc/MCArrayApi_ab*.cfg). *)
(***************************************************************************)
EXTENDS Shapes, TLC, Json

CONSTANTS
    ShapeSet,            \* shapes to explore
    Past,                \* how many calls past exhaustion a history continues
    AB_ViewRestart,      \* as built: view::Iter does not latch exhaustion (yields Some after None)
    AB_AxisLenConst,     \* as built: AxisIter::len() never decreases
    AB_GetAxisOffByOne,  \* as built: get_axis tests axis > dims instead of axis >= dims
    AB_View0Dim,         \* as built: iterating a view with no remaining axes panics
    NthArgs,             \* arguments n of Iterator::nth(n) explored in histories ({} = only next())
    NthBudget,           \* at most this many nth() calls per history
    NthMaxCells,         \* nth() is explored on arrays with at most this many cells
    AB_NthUnclamped,     \* as built (seeded change C19d): an O(1) nth() that moves the cursor past the end
    CloneBudget,         \* view iterators are Clone: at most this many times per history the REST of the history runs on a clone
    AB_CloneResets       \* as built (seeded change C19e): a hand-written Clone that forgets how many items were yielded

VARIABLES
    shape,      \* shape of the array under test
    obj,        \* the object whose call history this behaviour explores
    st,         \* operational cursor state of that object
    h,          \* call history: sequence of [len |-> reported length before the call, n |-> -1 for next() or
                \*   the argument of nth(n), next |-> result]
    nones,      \* number of None results so far
    budget,     \* nth() calls still allowed in this history
    clones      \* clone operations still allowed in this history

vars == <<shape, obj, st, h, nones, budget, clones>>

(* Results of fallible calls: Some(v), None, or a panic of the code under test *)
Some(v) == [k |-> "some", v |-> v]
None == [k |-> "none"]
Panic == [k |-> "panic"]
IsSome(r) == r.k = "some"
PanicLen == -1          \* len() that panics (arithmetic underflow)

(*************************** declarative layer ***************************)

(* Cells of the axis view (axis a, position i): those whose a-th coordinate is i *)
ViewCells(sh, a, i) == {p \in FlatSpace(sh) : Unflat(sh, p)[a] = i}

(* ... iterated in row-major order of the remaining axes = ascending flat position *)
ViewElems(sh, a, i) == SortedSeq(ViewCells(sh, a, i))

ViewOf(sh, a, i) == [shape |-> RemoveAt(sh, a), elems |-> ViewElems(sh, a, i)]

GetRef(sh, idx) == IF InBounds(sh, idx) THEN Some(Flat(sh, idx)) ELSE None

GetAxisRef(sh, a, i) ==            \* a is 1-based here; a > Dims(sh) is "axis out of range"
    IF a > Dims(sh) \/ i >= sh[a] THEN None ELSE Some(ViewOf(sh, a, i))

GetAxisAsBuilt(sh, a, i) ==
    IF a > Dims(sh) + 1 THEN None
    ELSE IF a = Dims(sh) + 1 THEN Panic      \* shape[axis] indexed out of bounds
    ELSE IF i >= sh[a] THEN None ELSE Some(ViewOf(sh, a, i))

GetAxis(sh, a, i) == IF AB_GetAxisOffByOne THEN GetAxisAsBuilt(sh, a, i) ELSE GetAxisRef(sh, a, i)

(* Sum along axis a: cell-wise sum of the views; cell value = its flat position *)
SumAxisRef(sh, a) ==
    LET out == RemoveAt(sh, a)
    IN  [q \in 1..Elements(out) |->
            SeqSum([i \in 1..sh[a] |-> ViewElems(sh, a, i - 1)[q]])]

(* Independent definition: sum over the removed coordinate of Flat(insert coordinate) *)
SumAxisDecl(sh, a) ==
    LET out == RemoveAt(sh, a)
    IN  [q \in 1..Elements(out) |->
            SeqSum([i \in 1..sh[a] |-> Flat(sh, InsertAt(Unflat(out, q - 1), a, i - 1))])]

(* Everything an object is expected to yield, in order *)
Expected(sh, o) ==
    CASE o.kind = "indices" -> [p \in 1..Elements(sh) |-> Unflat(sh, p - 1)]
      [] o.kind = "axis"    -> [i \in 1..sh[o.a] |-> ViewOf(sh, o.a, i - 1)]
      [] o.kind = "view"    -> ViewElems(sh, o.a, o.i)
      [] o.kind = "freq"    -> [p \in 1..Elements(sh) |-> Unflat(sh, p - 1)]

(*************************** operational layer ***************************)

(* view::Iter as coded: data starts at the view's first cell, shape/strides with axis removed *)
VShape(sh, a) == RemoveAt(sh, a)
VStrides(sh, a) == RemoveAt(Strides(sh), a)
VBase(sh, a, i) == i * Strides(sh)[a]

RECURSIVE ViewStep(_, _, _, _)
(* one impl_next_rec(axis) on state s; returns [s |-> new state, r |-> result] *)
ViewStep(sh, o, s, axis) ==
    LET vs == VShape(sh, o.a)
        vt == VStrides(sh, o.a)
        base == VBase(sh, o.a, o.i)
    IN  IF s.index = 0
        THEN [s |-> [s EXCEPT !.index = 1], r |-> Some(base)]
        ELSE IF axis = 0
        THEN [s |-> s, r |-> None]                       \* view without axes: one cell only
        ELSE LET c == s.coords[axis] + 1
             IN  IF c < vs[axis]
                 THEN LET off == s.offset + vt[axis]
                      IN  [s |-> [s EXCEPT !.coords[axis] = c, !.offset = off, !.index = @ + 1],
                           r |-> Some(base + off)]
                 ELSE IF axis > 1
                 THEN ViewStep(sh, o,
                               [s EXCEPT !.coords[axis] = 0,
                                         !.offset = @ - vt[axis] * (vs[axis] - 1)],
                               axis - 1)
                 ELSE [s |-> [s EXCEPT !.coords[axis] = c], r |-> None]

(* as coded since the fix of the restart defect: exhaustion is decided by the running index against the number of *)
(* cells of the view (so an EMPTY view yields nothing at all) and the odometer is left alone afterwards          *)
ViewNextRef(sh, o, s) ==
    IF s.index >= Elements(VShape(sh, o.a)) THEN [s |-> s, r |-> None]
    ELSE ViewStep(sh, o, s, Len(VShape(sh, o.a)))

(* As built: no latch.  After None the odometer keeps its coordinates and continues; the *)
(* offset may leave the data, in which case slice::get returns None.                      *)
ViewNextAsBuilt(sh, o, s) ==
    IF Len(VShape(sh, o.a)) = 0 /\ AB_View0Dim THEN [s |-> s, r |-> Panic]
    ELSE LET x == ViewStep(sh, o, s, Len(VShape(sh, o.a)))
         IN  IF IsSome(x.r) /\ x.r.v >= Elements(sh) THEN [s |-> x.s, r |-> None] ELSE x

ViewLenRef(sh, o, s) == Elements(VShape(sh, o.a)) - s.index
ViewLenAsBuilt(sh, o, s) ==
    IF s.index > Elements(VShape(sh, o.a)) THEN PanicLen ELSE Elements(VShape(sh, o.a)) - s.index

InitState(sh, o) ==
    CASE o.kind \in {"indices", "freq"} -> [pos |-> 0]
      [] o.kind = "axis" -> [i |-> 0]
      [] o.kind = "view" -> [coords |-> [j \in 1..(Len(sh) - 1) |-> 0], offset |-> 0,
                             index |-> 0, done |-> FALSE]

(* One next() call: new cursor state and result *)
NextOf(sh, o, s) ==
    CASE o.kind \in {"indices", "freq"} ->
            IF s.pos < Elements(sh)
            THEN [s |-> [pos |-> s.pos + 1], r |-> Some(Unflat(sh, s.pos))]
            ELSE [s |-> s, r |-> None]
      [] o.kind = "axis" ->
            LET v == GetAxis(sh, o.a, s.i)
            IN  IF IsSome(v) THEN [s |-> [i |-> s.i + 1], r |-> v] ELSE [s |-> s, r |-> v]
      [] o.kind = "view" ->
            IF AB_ViewRestart \/ AB_View0Dim THEN ViewNextAsBuilt(sh, o, s) ELSE ViewNextRef(sh, o, s)

(* One nth(n) call = the std default: n times next(), stopping at the first None, then one more next() *)
RECURSIVE NthRef(_, _, _, _)
NthRef(sh, o, s, n) ==
    LET x == NextOf(sh, o, s)
    IN  IF n = 0 \/ ~IsSome(x.r) THEN x ELSE NthRef(sh, o, x.s, n - 1)

(* as built (C19d): cursor += n without clamping, then next(); only the flat-cursor iterators had it *)
NthOf(sh, o, s, n) ==
    IF AB_NthUnclamped /\ o.kind \in {"indices", "freq"}
    THEN NextOf(sh, o, [pos |-> s.pos + n])
    ELSE NthRef(sh, o, s, n)

(* The len() reported in state s *)
LenOf(sh, o, s) ==
    CASE o.kind \in {"indices", "freq"} -> IF s.pos > Elements(sh) THEN PanicLen ELSE Elements(sh) - s.pos
      [] o.kind = "axis" -> IF AB_AxisLenConst THEN sh[o.a] ELSE sh[o.a] - s.i
      [] o.kind = "view" -> IF AB_ViewRestart THEN ViewLenAsBuilt(sh, o, s) ELSE ViewLenRef(sh, o, s)

(******************************* the machine *******************************)

Objects(sh) ==
    {[kind |-> "indices"], [kind |-> "freq"], [kind |-> "table"]}
    \cup {[kind |-> "axis", a |-> a] : a \in 1..Dims(sh)}
    \cup {[kind |-> "view", a |-> a, i |-> i] : <<a, i>> \in
              {<<a, i>> \in (1..Dims(sh)) \X (0..(SeqMax(sh) - 1)) : i < sh[a]}}

Init == /\ shape \in ShapeSet
        /\ obj \in Objects(shape)
        /\ st = IF obj.kind = "table" THEN [pos |-> 0] ELSE InitState(shape, obj)
        /\ h = <<>>
        /\ nones = 0
        /\ budget = NthBudget
        /\ clones = CloneBudget

Done == IF obj.kind = "table" THEN Len(h) = 1 ELSE nones = Past \/ (h # <<>> /\ h[Len(h)].next = Panic)

(* One len() + next() pair on the object, or one len() + nth(n) pair *)
CallArgs == {-1} \cup (IF budget > 0 /\ Elements(shape) <= NthMaxCells THEN NthArgs ELSE {})
Call == /\ obj.kind # "table"
        /\ ~Done
        /\ \E n \in CallArgs :
             LET l == LenOf(shape, obj, st)
                 x == IF n = -1 THEN NextOf(shape, obj, st) ELSE NthOf(shape, obj, st, n)
             IN  /\ st' = x.s
                 /\ h' = Append(h, [len |-> l, n |-> n, next |-> x.r])
                 /\ nones' = IF x.r = None THEN nones + 1 ELSE nones
                 /\ budget' = IF n = -1 THEN budget ELSE budget - 1
        /\ UNCHANGED <<shape, obj, clones>>

(* iter.clone(): the clone is in the same state as the original and the history continues on the clone.  The history *)
(* records the step (n = -2) with the length the CLONE reports.                                                      *)
Cloned == [k |-> "cloned"]
CloneStep ==
    /\ obj.kind = "view" /\ ~Done /\ clones > 0
    /\ st' = IF AB_CloneResets THEN [st EXCEPT !.index = 0] ELSE st
    /\ h' = Append(h, [len |-> LenOf(shape, obj, st'), n |-> -2, next |-> Cloned])
    /\ clones' = clones - 1
    /\ UNCHANGED <<shape, obj, nones, budget>>

(* The stateless part of the API as one step: probes of get, get_axis and sum *)
GetProbes(sh) ==
    [1..Len(sh) -> 0..SeqMax(sh)]                          \* every index incl. one past each end
    \cup (IF Len(sh) > 1 THEN [1..(Len(sh) - 1) -> {0}] ELSE {<<>>})    \* too short
    \cup [1..(Len(sh) + 1) -> {0}]                                      \* too long

AxisProbes(sh) == (1..(Dims(sh) + 2)) \X (0..(SeqMax(sh) + 1))

Table(sh) ==
    [get     |-> {[idx |-> idx, r |-> GetRef(sh, idx)] : idx \in GetProbes(sh)},
     getaxis |-> {[a |-> Ax0(p[1]), i |-> p[2],
                   r |-> IF p[1] <= Dims(sh) THEN GetAxis(sh, p[1], p[2])
                         ELSE IF AB_GetAxisOffByOne THEN GetAxisAsBuilt(sh, p[1], p[2]) ELSE None]
                  : p \in AxisProbes(sh)},
     sum     |-> IF Dims(sh) > 1
                 THEN {[a |-> Ax0(a), shape |-> RemoveAt(sh, a), r |-> SumAxisRef(sh, a)] : a \in 1..Dims(sh)}
                 ELSE {}]

Probe == /\ obj.kind = "table"
         /\ ~Done
         /\ h' = <<Table(shape)>>
         /\ UNCHANGED <<shape, obj, st, nones, budget, clones>>

Next == Call \/ CloneStep \/ Probe

Spec == Init /\ [][Next]_vars

(******************************* properties *******************************)

Somes(hh) == SelectSeq(hh, LAMBDA e : IsSome(e.next))
Yielded == [j \in 1..Len(Somes(h)) |-> Somes(h)[j].next.v]

IsPrefix(s, t) == Len(s) <= Len(t) /\ \A j \in 1..Len(s) : s[j] = t[j]

(* items a call asks the iterator to consume: next() one, nth(n) n + 1; consumption stops at the end *)
Demand(e) == IF e.n = -2 THEN 0 ELSE IF e.n = -1 THEN 1 ELSE e.n + 1
RECURSIVE DemandSum(_, _)
DemandSum(hh, j) == IF j = 0 THEN 0 ELSE Demand(hh[j]) + DemandSum(hh, j - 1)
ConsumedBefore(j, total) == LET d == DemandSum(h, j - 1) IN IF d > total THEN total ELSE d

(* C19: each item once, in order; nothing else.  With nth() in the history: call j returns the item at *)
(* position consumed-so-far + its demand, or None when that is past the end                           *)
YieldsExpectedPrefix ==
    obj.kind # "table" =>
        LET ex == Expected(shape, obj)
            total == Len(ex)
        IN  \A j \in 1..Len(h) :
                LET want == ConsumedBefore(j, total) + Demand(h[j])
                IN  h[j].next = IF h[j].n = -2 THEN Cloned ELSE IF want <= total THEN Some(ex[want]) ELSE None

(* C19: ... and then None forever: a None is only ever seen after everything was yielded, *)
(* and no Some follows a None                                                            *)
Fused ==
    obj.kind # "table" =>
        LET total == Len(Expected(shape, obj)) IN
        \A j \in 1..Len(h) :
            h[j].next = None =>
                /\ ConsumedBefore(j, total) + Demand(h[j]) > total
                /\ \A k \in j..Len(h) : h[k].n = -2 \/ h[k].next = None

(* C19: the reported remaining length is the number of items still to come *)
LenExact ==
    obj.kind # "table" =>
        LET total == Len(Expected(shape, obj)) IN
        \A j \in 1..Len(h) :
            h[j].len = total - ConsumedBefore(j, total)

NoPanic == \A j \in 1..Len(h) : obj.kind # "table" => h[j].next # Panic /\ h[j].len # PanicLen

(* C19: flat position and multi-index are in bijection, row-major *)
LexLess(a, b) == \E i \in 1..Len(a) : a[i] < b[i] /\ \A j \in 1..(i - 1) : a[j] = b[j]

Bijection ==
    obj.kind = "table" =>
        /\ \A idx \in IndexSpace(shape) : Unflat(shape, Flat(shape, idx)) = idx
        /\ {Flat(shape, idx) : idx \in IndexSpace(shape)} = FlatSpace(shape)
        /\ Cardinality(IndexSpace(shape)) = Elements(shape)
        /\ \A x, y \in IndexSpace(shape) : LexLess(x, y) <=> Flat(shape, x) < Flat(shape, y)

(* C19: views partition the cells; the operational sum equals the declarative one *)
ViewsPartition ==
    obj.kind = "table" =>
        \A a \in 1..Dims(shape) :
            /\ UNION {ViewCells(shape, a, i) : i \in 0..(shape[a] - 1)} = FlatSpace(shape)
            /\ \A i, j \in 0..(shape[a] - 1) : i # j => ViewCells(shape, a, i) \cap ViewCells(shape, a, j) = {}
            /\ \A i \in 0..(shape[a] - 1) : Len(ViewElems(shape, a, i)) = Elements(RemoveAt(shape, a))
            /\ Dims(shape) > 1 => SumAxisRef(shape, a) = SumAxisDecl(shape, a)

(* get_axis out of range is None, never a panic *)
TableNoPanic ==
    (obj.kind = "table" /\ h # <<>>) => \A e \in h[1].getaxis : e.r # Panic

(****************************** JSON boundary ******************************)

ObjJson(o) ==
    CASE o.kind \in {"indices", "freq", "table"} -> [kind |-> o.kind]
      [] o.kind = "axis" -> [kind |-> "axis", a |-> Ax0(o.a)]
      [] o.kind = "view" -> [kind |-> "view", a |-> Ax0(o.a), i |-> o.i]

Emit == Done => PrintT("REPLAY " \o ToJson([family |-> "array", shape |-> shape, obj |-> ObjJson(obj), h |-> h]))
=============================================================================
