------------------------------- MODULE NpyFile -------------------------------
(***************************************************************************)
(* The NPY container (C15 C16, used by C07 C18).                           *)
(*                                                                         *)
(*   file = magic(6) version(2) header_len(2 | 4, little endian)           *)
(*          header(header_len: Python-literal dict, padding, "\n")         *)
(*          data(prod(shape) * itemsize, C order)                          *)
(*                                                                         *)
(* Strings stay strings (TLA+ has no character codes); the specification   *)
(* works with segment LENGTHS and OFFSETS, which is what alignment,         *)
(* truncation and extension are about, and with byte sequences (0..255)    *)
(* for the data section, which is what dtype decoding is about.            *)
(*                                                                         *)
(* Writer (C15): the dict exactly as the tool must spell it, the padding    *)
(* rule, and the layout invariant checked for EVERY dict length.           *)
(* Reader (C15): numpy's header spelling variants x dtype x byte order x   *)
(* version, and Decode: bytes -> exact value by positional arithmetic.     *)
(* Damage (C16): the reader machine over segments; every strict prefix and *)
(* every extension must be rejected.                                       *)
(***************************************************************************)
EXTENDS Shapes, Q, TLC

CONSTANTS AB_PadZero,     \* as built: no padding (and no newline) when 10 + dict length is a multiple of 64
          AB_StopAtCount  \* sabotage: a reader that stops after the declared number of values

Align == 64
MagicLen == 6
VersionLen == 2
LenWidth(version) == IF version = 1 THEN 2 ELSE 4

RECURSIVE Repeat(_, _)
Repeat(s, n) == IF n <= 0 THEN "" ELSE s \o Repeat(s, n - 1)

RECURSIVE JoinFrom(_, _, _)
JoinFrom(seq, sep, i) ==
    IF i > Len(seq) THEN "" ELSE (IF i > 1 THEN sep ELSE "") \o seq[i] \o JoinFrom(seq, sep, i + 1)
Join(seq, sep) == JoinFrom(seq, sep, 1)

Nums(sh) == [i \in 1..Len(sh) |-> ToString(sh[i])]

(********************************* writer *********************************)
(* the shape tuple as the tool writes it: every entry followed by a comma: (3,) (3, 4,) *)
WriterTuple(sh) == "(" \o Join(Nums(sh), ", ") \o ",)"
WriterDict(sh) == "{'descr': '<f8', 'fortran_order': False, 'shape': " \o WriterTuple(sh) \o ", }"

(* padding (spaces then one newline) so that the data starts at a multiple of 64; at least the newline *)
PadLenRef(dictLen) == Align - ((MagicLen + VersionLen + 2 + dictLen) % Align)          \* 1..64
PadLenAsBuilt(dictLen) ==
    LET rem == (MagicLen + VersionLen + 2 + dictLen) % Align IN IF rem = 0 THEN 0 ELSE Align - rem
PadLen(dictLen) == IF AB_PadZero THEN PadLenAsBuilt(dictLen) ELSE PadLenRef(dictLen)

WriterHeader(sh) ==
    LET d == WriterDict(sh)
        p == PadLen(Len(d))
    IN  IF p = 0 THEN d ELSE d \o Repeat(" ", p - 1) \o "\n"

DataOffset(version, headerLen) == MagicLen + VersionLen + LenWidth(version) + headerLen

EndsWithNewline(s) == Len(s) > 0 /\ SubSeq(s, Len(s), Len(s)) = "\n"

(* the C15 layout invariant for one shape *)
WriterLayoutOk(sh) ==
    LET h == WriterHeader(sh)
    IN  /\ DataOffset(1, Len(h)) % Align = 0
        /\ EndsWithNewline(h)
        /\ Len(h) < 65536
        /\ SubSeq(h, 1, Len(WriterDict(sh))) = WriterDict(sh)

(******************************* reader: header *******************************)
(* numpy's spellings of the same dict.  A spelling is a record of choices. *)
Spellings ==
    [quote : {"'", "\""}, comma : {", ", ","}, colon : {": ", ":"}, trailing : BOOLEAN,
     order : {<<1, 2, 3>>, <<1, 3, 2>>, <<2, 1, 3>>, <<2, 3, 1>>, <<3, 1, 2>>, <<3, 2, 1>>},
     tupleComma : BOOLEAN]

(* numpy: (3,) for one axis; (3, 4) or with a trailing comma for more *)
ReaderTuple(sh, sp) ==
    "(" \o Join(Nums(sh), sp.comma) \o (IF Len(sh) = 1 \/ sp.tupleComma THEN "," ELSE "") \o ")"

SpelledDict(descr, fortran, sh, sp) ==
    LET q == sp.quote
        entry(k) == CASE k = 1 -> q \o "descr" \o q \o sp.colon \o q \o descr \o q
                      [] k = 2 -> q \o "fortran_order" \o q \o sp.colon \o (IF fortran THEN "True" ELSE "False")
                      [] k = 3 -> q \o "shape" \o q \o sp.colon \o ReaderTuple(sh, sp)
    IN  "{" \o Join([i \in 1..3 |-> entry(sp.order[i])], sp.comma)
            \o (IF sp.trailing THEN sp.comma ELSE "") \o "}"

(* numpy pads every version to 64 with spaces and ends the header with a newline *)
NumpyHeader(version, dict) ==
    LET base == MagicLen + VersionLen + LenWidth(version) + Len(dict) + 1
        pad == (Align - (base % Align)) % Align
    IN  dict \o Repeat(" ", pad) \o "\n"

(* Alignment of the data is a courtesy of the writer, not a rule of the format (numpy before 1.14 aligned to 16 bytes, other *)
(* writers do not pad at all): a header whose data section starts `gap' bytes BEFORE a 64-byte boundary is just as valid.   *)
NumpyHeaderGap(version, dict, gap) ==
    LET base == MagicLen + VersionLen + LenWidth(version) + Len(dict) + 1
        pad == (2 * Align - gap - (base % Align)) % Align
    IN  dict \o Repeat(" ", pad) \o "\n"

(******************************* reader: dtypes *******************************)
Types == {"f4", "f8", "i1", "i2", "i4", "i8", "u1", "u2", "u4", "u8"}
ItemSize(t) == CASE t \in {"i1", "u1"} -> 1 [] t \in {"i2", "u2"} -> 2
                 [] t \in {"f4", "i4", "u4"} -> 4 [] t \in {"f8", "i8", "u8"} -> 8
Orders == {"<", ">", "|"}
Unsupported == {"<f2", "<c8", "|b1", "|S3", "<U2", "|O", "<f16", "=f8", "f8"}

Reverse(s) == [i \in 1..Len(s) |-> s[Len(s) + 1 - i]]

(* little-endian bytes (least significant first) -> unsigned value, exactly *)
RECURSIVE UnsignedLE(_, _)
UnsignedLE(b, i) == IF i > Len(b) THEN QZero
                    ELSE QAdd(QMul(QI(b[i]), QPow(QI(256), i - 1)), UnsignedLE(b, i + 1))

Pow2(e) == QPow(QI(2), e)

SignedLE(b) ==      \* two's complement
    LET u == UnsignedLE(b, 1) IN
    IF b[Len(b)] >= 128 THEN QSub(u, Pow2(8 * Len(b))) ELSE u

(* IEEE-754 binary32 / binary64 from little-endian bytes: [class, value] *)
FloatLE(b, ebits, mbits) ==
    LET nbits == 8 * Len(b)
        u == UnsignedLE(b, 1)
        sign == IF b[Len(b)] >= 128 THEN -1 ELSE 1
        mag == IF sign = -1 THEN QSub(u, Pow2(nbits - 1)) ELSE u          \* without the sign bit
        \* exponent field = floor(mag / 2^mbits); computed bytewise to stay in small integers
        efield == IF Len(b) = 4 THEN ((b[4] % 128) * 2) + (b[3] \div 128)
                  ELSE ((b[8] % 128) * 16) + (b[7] \div 16)
        mant == QSub(mag, QMul(QI(efield), Pow2(mbits)))
        bias == IF Len(b) = 4 THEN 127 ELSE 1023
        emax == IF Len(b) = 4 THEN 255 ELSE 2047
    IN  IF efield = emax
        THEN (IF QIsZero(mant) THEN [class |-> IF sign = 1 THEN "inf" ELSE "-inf"] ELSE [class |-> "nan"])
        ELSE IF efield = 0
        THEN [class |-> "finite",
              v |-> QMul(QI(sign), QMul(mant, Pow2(1 - bias - mbits))),        \* subnormal / zero
              negzero |-> (sign = -1 /\ QIsZero(mant))]
        ELSE [class |-> "finite",
              v |-> QMul(QI(sign), QMul(QAdd(Pow2(mbits), mant), Pow2(efield - bias - mbits))),
              negzero |-> FALSE]

(* the value a reader must produce for one item, given its bytes in FILE order *)
Decode(t, order, fileBytes) ==
    LET le == IF order = ">" THEN Reverse(fileBytes) ELSE fileBytes     \* "|" (not applicable) reads as is
    IN  CASE t \in {"u1", "u2", "u4", "u8"} -> [class |-> "finite", v |-> UnsignedLE(le, 1), negzero |-> FALSE]
          [] t \in {"i1", "i2", "i4", "i8"} -> [class |-> "finite", v |-> SignedLE(le), negzero |-> FALSE]
          [] t = "f4" -> FloatLE(le, 8, 23)
          [] t = "f8" -> FloatLE(le, 11, 52)

(* boundary byte patterns (little-endian order) for an item of n bytes *)
Fill(n, x) == [i \in 1..n |-> x]
Patterns(n) ==
    {Fill(n, 0), Fill(n, 255), [Fill(n, 0) EXCEPT ![n] = 128], [Fill(n, 255) EXCEPT ![n] = 127],
     [Fill(n, 0) EXCEPT ![1] = 1], [Fill(n, 255) EXCEPT ![1] = 254], [Fill(n, 0) EXCEPT ![n] = 1],
     [i \in 1..n |-> i], [i \in 1..n |-> 255 - 17 * i], [i \in 1..n |-> IF i % 2 = 0 THEN 170 ELSE 85]}
FloatPatterns(n) ==
    IF n = 4
    THEN {<<0, 0, 128, 63>>, <<0, 0, 128, 191>>, <<0, 0, 128, 127>>, <<0, 0, 128, 255>>, <<0, 0, 192, 127>>,
          <<1, 0, 128, 127>>, <<1, 0, 0, 0>>, <<255, 255, 127, 0>>, <<0, 0, 128, 0>>, <<255, 255, 127, 127>>,
          <<0, 0, 0, 128>>, <<171, 170, 170, 62>>, <<219, 15, 73, 64>>}
    ELSE {<<0, 0, 0, 0, 0, 0, 240, 63>>, <<0, 0, 0, 0, 0, 0, 240, 191>>, <<0, 0, 0, 0, 0, 0, 240, 127>>,
          <<0, 0, 0, 0, 0, 0, 240, 255>>, <<0, 0, 0, 0, 0, 0, 248, 127>>, <<1, 0, 0, 0, 0, 0, 240, 127>>,
          <<1, 0, 0, 0, 0, 0, 0, 0>>, <<255, 255, 255, 255, 255, 255, 15, 0>>, <<0, 0, 0, 0, 0, 0, 16, 0>>,
          <<255, 255, 255, 255, 255, 255, 239, 127>>, <<0, 0, 0, 0, 0, 0, 0, 128>>,
          <<85, 85, 85, 85, 85, 85, 213, 63>>, <<24, 45, 68, 84, 251, 33, 9, 64>>}
(* 64-bit integers around 2^53, where conversion to float64 starts to round (ties to even) *)
BigIntPatterns == {<<0, 0, 0, 0, 0, 0, 32, 0>>, <<1, 0, 0, 0, 0, 0, 32, 0>>, <<2, 0, 0, 0, 0, 0, 32, 0>>,
                   <<3, 0, 0, 0, 0, 0, 32, 0>>, <<255, 255, 255, 255, 255, 255, 255, 127>>,
                   <<0, 4, 0, 0, 0, 0, 0, 128>>, <<1, 4, 0, 0, 0, 0, 0, 128>>, <<255, 251, 255, 255, 255, 255, 255, 255>>}

ItemPatterns(t) ==
    Patterns(ItemSize(t))
    \cup (IF t \in {"f4", "f8"} THEN FloatPatterns(ItemSize(t)) ELSE {})
    \cup (IF t \in {"i8", "u8"} THEN BigIntPatterns ELSE {})

ValueJson(d) ==
    IF d.class = "finite"
    THEN [class |-> "finite", v |-> QSci(d.v, 40), negzero |-> d.negzero]
    ELSE [class |-> d.class]

(******************************* damage (C16) *******************************)
(* A file as segment lengths; the reader consumes segments in order and fails on a short one. *)
Segments(version, headerLen, dataLen) == <<MagicLen, VersionLen, LenWidth(version), headerLen, dataLen>>
FileLen(version, headerLen, dataLen) == DataOffset(version, headerLen) + dataLen

(* Outcome of the reader on the first `avail' bytes of a valid file followed by `extra' junk bytes:  *)
(* it accepts iff the magic..header segments are complete and the number of COMPLETE items read     *)
(* equals the declared count with no partial item left over.                                        *)
ReaderAccepts(version, headerLen, elements, itemsize, avail, extra) ==
    LET off == DataOffset(version, headerLen)
        got == avail + extra - off
    IN  /\ avail >= off               \* junk can never complete a damaged header: it follows the cut
        /\ IF AB_StopAtCount THEN got >= elements * itemsize
           ELSE got % itemsize = 0 /\ got \div itemsize = elements

(* What the junk consists of may not matter: zeros, 0xff, a byte pattern, or bytes that LOOK like harmless trailing *)
(* text (newlines, blanks, CR LF, tabs, a value line, a second npy magic).  The reader model above never looks at *)
(* the content - the replay appends every one of these fills.                                                       *)
ExtFills == {"pattern", "zero", "ff", "newline", "space", "crlf", "tab", "formfeed", "text", "magic"}

(* C16 for one file: every strict prefix and every extension is rejected; the intact file is accepted *)
DamageRejected(version, headerLen, elements, itemsize, maxExt) ==
    LET total == FileLen(version, headerLen, elements * itemsize)
    IN  /\ ReaderAccepts(version, headerLen, elements, itemsize, total, 0)
        /\ \A t \in 0..(total - 1) : ~ReaderAccepts(version, headerLen, elements, itemsize, t, 0)
        /\ \A e \in 1..maxExt : ~ReaderAccepts(version, headerLen, elements, itemsize, total, e)
=============================================================================
