------------------------------ MODULE TextFile ------------------------------
(***************************************************************************)
(* The plain-text spectrum format and its damage machine (C16, C07).       *)
(*                                                                         *)
(*   "#SHAPE=<n1/n2/...>" newline, then the values in row-major order      *)
(*   separated by single spaces, newline.                                  *)
(*                                                                         *)
(* Values are opaque tokens here (their decimal rendering is C07's         *)
(* business); a file is [shape, tokens].  The damage machine applies up to *)
(* MaxFaults edits - remove a value token, insert one, change the declared *)
(* shape (one length +-1, drop an axis, add an axis of length 1 or 2) -    *)
(* and the reader must accept exactly when the number of tokens equals the *)
(* product of the declared shape.                                          *)
(***************************************************************************)
EXTENDS Shapes, TLC, Json

CONSTANTS ShapeSet, MaxFaults

VARIABLES shape0, shape, ntok, faults
vars == <<shape0, shape, ntok, faults>>

Init == /\ shape0 \in ShapeSet
        /\ shape = shape0
        /\ ntok = Elements(shape0)
        /\ faults = <<>>

Can == Len(faults) < MaxFaults

DropToken == /\ Can /\ ntok > 0
             /\ ntok' = ntok - 1
             /\ faults' = Append(faults, [f |-> "drop", at |-> ntok - 1])
             /\ UNCHANGED <<shape0, shape>>
AddToken == /\ Can
            /\ ntok' = ntok + 1
            /\ faults' = Append(faults, [f |-> "add", at |-> ntok])
            /\ UNCHANGED <<shape0, shape>>
(* a surplus value on a line of its own after the value line (e.g. two files concatenated) *)
AddLine == /\ Can
           /\ ntok' = ntok + 1
           /\ faults' = Append(faults, [f |-> "addline", at |-> ntok])
           /\ UNCHANGED <<shape0, shape>>
Bump(a, d) == /\ Can /\ shape[a] + d >= 0
              /\ shape' = [shape EXCEPT ![a] = @ + d]
              /\ faults' = Append(faults, [f |-> "bump", at |-> a - 1, by |-> d])
              /\ UNCHANGED <<shape0, ntok>>
DropAxis(a) == /\ Can /\ Len(shape) > 1
               /\ shape' = RemoveAt(shape, a)
               /\ faults' = Append(faults, [f |-> "dropaxis", at |-> a - 1])
               /\ UNCHANGED <<shape0, ntok>>
AddAxis(l) == /\ Can
              /\ shape' = Append(shape, l)
              /\ faults' = Append(faults, [f |-> "addaxis", len |-> l])
              /\ UNCHANGED <<shape0, ntok>>

Next == DropToken \/ AddToken \/ AddLine
        \/ (\E a \in 1..Len(shape) : Bump(a, 1) \/ Bump(a, -1) \/ DropAxis(a))
        \/ (\E l \in {1, 2} : AddAxis(l))
Spec == Init /\ [][Next]_vars

(* what the reader must do with the file in this state *)
MustAccept == Elements(shape) = ntok

(* C16: a file whose number of values differs from the product of its declared shape is rejected *)
(* (and an undamaged file is read back with its shape)                                          *)
IntactAccepted == faults = <<>> => MustAccept
SingleTokenFaultRejected ==
    (Len(faults) = 1 /\ faults[1].f \in {"drop", "add", "addline"}) => ~MustAccept

Emit == PrintT("REPLAY " \o ToJson([family |-> "text", kind |-> "damage", shape0 |-> shape0, shape |-> shape,
                                    ntok |-> ntok, faults |-> faults, accept |-> MustAccept]))
=============================================================================
