"""Shared machinery of /verif/bin/check: builds, TLC runs, replay, evidence, verdicts.

Exit codes of a check: 0 held; 1 with a VIOLATION line and a replay file; 2 tool error/timeout
(never reported as a violation).  A panic of the code under test is data, not a tool error.
"""
import hashlib
import json
import os
import re
import subprocess
import sys
import time

VERIF = os.path.dirname(os.path.dirname(os.path.abspath(__file__)))
# The registered checks always work on /repo and write below /verif.  bin/selftest_par (the framework's own regression
# over the seeded changes) runs several copies side by side: VERIF_REPO names a scratch worktree of the repository,
# VERIF_WORK its build/work directory and VERIF_OUT where evidence and replay files of those runs go.
REPO = os.environ.get("VERIF_REPO", "/repo")
WORK = os.environ.get("VERIF_WORK", os.path.join(VERIF, ".work"))
OUT = os.environ.get("VERIF_OUT", VERIF)
SPEC = os.path.join(VERIF, "spec")
MC = os.path.join(SPEC, "mc")
HARNESS_SRC = os.path.join(VERIF, "harness")
# the harness crate depends on <repo>/core by path: for a scratch repository it is built from a copy whose path is rewritten
HARNESS = HARNESS_SRC if REPO == "/repo" else os.path.join(WORK, "harness-src")
CONFORM = os.path.join(HARNESS, "target", "debug", "sfs-conform")
REPO_TARGET = os.path.join(WORK, "repo-target")
SFS_BIN = os.path.join(REPO_TARGET, "debug", "sfs")
TLA_CP = "/opt/veriftools/tla/tla2tools.jar:/opt/veriftools/tla/CommunityModules-deps.jar"
GUARD = "sfs_verif"


class ToolError(Exception):
    pass


def log(*a):
    print("[check]", *a, file=sys.stderr, flush=True)


def seed():
    try:
        return int(os.environ.get("VERIF_SEED", "1"))
    except ValueError:
        return 1


def sh(cmd, timeout=None, env=None, cwd=None, stdin=None, capture=True):
    e = dict(os.environ)
    e.pop("RUST_BACKTRACE", None)
    e["CARGO_NET_OFFLINE"] = "true"
    if env:
        e.update(env)
    return subprocess.run(cmd, cwd=cwd, env=e, timeout=timeout, input=stdin,
                          stdout=subprocess.PIPE if capture else None,
                          stderr=subprocess.STDOUT if capture else None)


# ---------------------------------------------------------------------------------- builds

def build_q():
    src = os.path.join(SPEC, "Q.java")
    cls = os.path.join(SPEC, "Q.class")
    if not os.path.exists(cls) or os.path.getmtime(cls) < os.path.getmtime(src):
        r = sh(["javac", "-cp", TLA_CP, "-d", SPEC, src], timeout=300)
        if r.returncode != 0:
            raise ToolError("javac Q.java failed:\n" + r.stdout.decode(errors="replace"))


def build_harness():
    if HARNESS != HARNESS_SRC:
        os.makedirs(HARNESS, exist_ok=True)
        r = sh(["rsync", "-a", "--delete", "--exclude", "target", HARNESS_SRC + "/", HARNESS + "/"], timeout=300)
        if r.returncode != 0:
            raise ToolError("copying the harness failed:\n" + r.stdout.decode(errors="replace"))
        toml = os.path.join(HARNESS, "Cargo.toml")
        with open(toml) as f:
            text = f.read()
        with open(toml, "w") as f:
            f.write(text.replace('path = "/repo/core"', 'path = "%s/core"' % REPO))
    lock = os.path.join(HARNESS, "Cargo.lock")
    if not os.path.exists(lock):
        import shutil
        shutil.copy(os.path.join(REPO, "Cargo.lock"), lock)
    r = sh(["cargo", "build", "--offline"], cwd=HARNESS, timeout=1800)
    if r.returncode != 0:
        raise ToolError("cargo build of harness failed (does /repo still compile?):\n"
                        + r.stdout.decode(errors="replace")[-4000:])


def build_cli():
    """Build the sfs binary from /repo's working tree, dev profile (overflow checks on),
    hooks enabled, into a target dir outside /repo."""
    flags = "--cfg %s --check-cfg cfg(%s)" % (GUARD, GUARD)
    r = sh(["cargo", "build", "--offline", "-p", "sfs-cli", "--target-dir", REPO_TARGET],
           cwd=REPO, timeout=1800, env={"RUSTFLAGS": flags})
    if r.returncode != 0:
        raise ToolError("cargo build of /repo failed:\n" + r.stdout.decode(errors="replace")[-4000:])


def build_all(cli=True):
    os.makedirs(WORK, exist_ok=True)
    t = time.time()
    build_q()
    build_harness()
    if cli:
        build_cli()
    log("build ok in %.1fs" % (time.time() - t))


# ------------------------------------------------------------------------------------- TLC

class TlcResult:
    def __init__(self):
        self.ok = False
        self.generated = 0
        self.distinct = 0
        self.depth = 0
        self.violated = None      # name of violated invariant / property
        self.error = None         # any other TLC error text
        self.out = None           # path of TLC stdout
        self.replay = None        # path of extracted ndjson
        self.n_replay = 0
        self.wall = 0.0
        self.cfg = None
        self.timed_out = False
        self.printed = []         # non-REPLAY PrintT lines starting with "INFO "


def tlc(tag, module, cfg, workers=8, timeout=900, extra=None, env=None, java_opts=None,
        allow_timeout=False, moddir=None):
    """Run TLC on spec/mc/<module>.tla with spec/mc/<cfg>; extract REPLAY lines to ndjson."""
    os.makedirs(os.path.join(WORK, "tlc"), exist_ok=True)
    meta = os.path.join(WORK, "tlc", tag)
    sh(["rm", "-rf", meta])
    out = os.path.join(WORK, "tlc", tag + ".out")
    jopts = (java_opts or "-Xmx6g -XX:ParallelGCThreads=4 -Xss512m").split()
    cmd = ["java", "-XX:+UseParallelGC"] + jopts + [
        "-cp", TLA_CP + ":" + SPEC + ":" + MC, "tlc2.TLC",
        "-metadir", meta, "-noGenerateSpecTE", "-workers", str(workers),
        "-config", os.path.join(moddir or MC, cfg)] + (extra or []) + [os.path.join(moddir or MC, module + ".tla")]
    e = dict(os.environ)
    if env:
        e.update(env)
    res = TlcResult()
    res.out = out
    res.cfg = cfg
    t = time.time()
    with open(out, "wb") as fo:
        try:
            p = subprocess.run(cmd, stdout=fo, stderr=subprocess.STDOUT, timeout=timeout, env=e,
                               cwd=moddir or MC)
            rc = p.returncode
        except subprocess.TimeoutExpired:
            rc = None
            res.timed_out = True
    res.wall = time.time() - t
    sh(["rm", "-rf", meta])
    ndjson = os.path.join(WORK, "tlc", tag + ".ndjson")
    res.replay = ndjson
    errlines = []
    with open(out, "r", errors="replace") as fi, open(ndjson, "w") as fo:
        for line in fi:
            if line.startswith('"REPLAY '):
                try:
                    s = json.loads(line)
                except json.JSONDecodeError:
                    raise ToolError("unparsable REPLAY line in %s" % out)
                fo.write(s[7:] + "\n")
                res.n_replay += 1
                continue
            if line.startswith('"INFO '):
                res.printed.append(json.loads(line)[5:])
                continue
            m = re.search(r"(\d[\d,]*) states generated, (\d[\d,]*) distinct states found", line)
            if m:
                res.generated = int(m.group(1).replace(",", ""))
                res.distinct = int(m.group(2).replace(",", ""))
            m = re.search(r"The depth of the complete state graph search is (\d+)", line)
            if m:
                res.depth = int(m.group(1))
            m = re.search(r"Error: Invariant (\S+) is violated", line)
            if m:
                res.violated = m.group(1)
            m = re.search(r"Error: Action property (\S+) is violated", line)
            if m:
                res.violated = m.group(1)
            m = re.search(r"Error: Temporal properties were violated", line)
            if m:
                res.violated = "temporal"
            if "Model checking completed. No error has been found." in line:
                res.ok = True
            if line.startswith("Error:") or "***Parse Error***" in line or "Assumption" in line and "is false" in line:
                errlines.append(line.strip())
    if res.timed_out and not allow_timeout:
        raise ToolError("TLC timed out after %ss on %s (%s)" % (timeout, cfg, out))
    if res.timed_out:
        res.ok = res.violated is None and not errlines
    if not res.ok and res.violated is None:
        res.error = "; ".join(errlines[:5]) or ("TLC exit %s" % rc)
    return res


def tlc_must_pass(tag, module, cfg, **kw):
    r = tlc(tag, module, cfg, **kw)
    if not r.ok:
        raise ToolError("TLC did not accept the reference specification %s/%s: %s (see %s)"
                        % (module, cfg, r.violated or r.error, r.out))
    log("TLC %s: %d generated / %d distinct states, %d behaviours, %.1fs"
        % (cfg, r.generated, r.distinct, r.n_replay, r.wall))
    return r


def tlc_must_violate(tag, module, cfg, expected, **kw):
    """Non-vacuity: an as-built / sabotage configuration must violate one of `expected`."""
    kw.setdefault("workers", 4)
    r = tlc(tag, module, cfg, **kw)
    if r.violated is None or (expected and r.violated not in expected):
        raise ToolError("sabotage config %s did not violate %s (got %s / %s): invariant is vacuous"
                        % (cfg, expected, r.violated, r.error))
    log("TLC %s: violates %s as required (non-vacuity)" % (cfg, r.violated))
    return r


# ---------------------------------------------------------------------------------- harness

def conform(args, timeout=3600, env=None):
    e = {"SFS_BIN": SFS_BIN, "VERIF_SEED": str(seed()), "VERIF_REPO": REPO,
         "CONFORM_WORK": os.path.join(WORK, "conform")}
    if env:
        e.update(env)
    os.makedirs(e["CONFORM_WORK"], exist_ok=True)
    r = sh([CONFORM] + args, timeout=timeout, env=e)
    if r.returncode != 0:
        raise ToolError("sfs-conform %s failed (%s):\n%s"
                        % (" ".join(args), r.returncode, r.stdout.decode(errors="replace")[-3000:]))
    return r.stdout.decode(errors="replace")


def replay(family, ndjson, tag, env=None, timeout=3600):
    result = os.path.join(WORK, "conform", tag + ".result.json")
    os.makedirs(os.path.dirname(result), exist_ok=True)
    t = time.time()
    conform(["replay", family, ndjson, result], env=env, timeout=timeout)
    with open(result) as f:
        r = json.load(f)
    log("replay %s: %d cases, %d checks, %d failures, %.1fs"
        % (family, r["cases"], r["checks"], r["failures_total"], time.time() - t))
    return r


# ------------------------------------------------------------------------ trace validation

def record_create_trace(tag, big=False):
    """impl -> spec: run the real `sfs create` (hook H1) on fixtures and cohorts, return the trace path and summary."""
    trace = os.path.join(WORK, "conform", tag + ".trace.ndjson")
    os.makedirs(os.path.dirname(trace), exist_ok=True)
    out = conform(["record", "create", trace], env={"RECORD_BIG": "1"} if big else None, timeout=3600)
    summary = json.loads(out.strip().splitlines()[-1])
    if not os.path.exists(trace) or os.path.getsize(trace) == 0:
        raise ToolError("no trace was recorded: is the binary built with --cfg %s (hook H1 present)?" % GUARD)
    return trace, summary


def validate_trace(tag, trace, module="MCCreateTrace", cfg="CreateTrace.cfg", timeout=1800):
    """Check a recorded trace against the trace specification with TLC.  Returns a dict:
    accepted, events, matched (longest matched prefix), first_unmatched (the event after it), violated."""
    with open(trace) as f:
        events = [l for l in f if l.strip()]
    r = tlc(tag, module, cfg, workers=1, timeout=timeout, env={"TRACE": trace},
            java_opts="-Xmx4g -XX:ParallelGCThreads=2 -Xss512m -Dtlc2.tool.queue.IStateQueue=StateDeque")
    res = {"accepted": r.ok, "events": len(events), "violated": r.violated, "tlc": r, "matched": None,
           "first_unmatched": None}
    if not r.ok:
        with open(r.out, errors="replace") as f:
            for line in f:
                if "TRACE-REJECTED" in line:
                    m = re.search(r"TRACE-REJECTED at line\", (\d+)", line)
                    if m:
                        d = int(m.group(1))
                        res["matched"] = d - 1
                        if d - 1 < len(events):
                            res["first_unmatched"] = events[d - 1].strip()
        if res["matched"] is None and r.violated is None and r.error and "TRACE-REJECTED" not in (r.error or ""):
            # not a rejection but a tool problem
            if "Postcondition" not in (r.error or "") and "postcondition" not in (r.error or ""):
                raise ToolError("trace validation could not run: %s (see %s)" % (r.error, r.out))
    return res


def apalache_inductive(tag, module, init, nxt, inv, timeout=900, cinit=None, expect_failure=False):
    """Init => Inv (length 0) and Inv /\\ Next => Inv' (length 1) with Apalache: an inductive invariant, i.e. a
    proof for behaviours of ANY length.  Returns wall seconds; raises ToolError when not established."""
    d = os.path.join(WORK, "apalache", tag)
    sh(["rm", "-rf", d])
    os.makedirs(d, exist_ok=True)
    import shutil
    shutil.copy(os.path.join(SPEC, module + ".tla"), d)
    t = time.time()
    for step, (i, length) in enumerate([(init, 0), (inv, 1)]):
        r = sh(["apalache-mc", "check", "--init=" + i, "--next=" + nxt, "--inv=" + inv, "--length=%d" % length]
               + (["--cinit=" + cinit] if cinit else [])
               + ["--out-dir=" + os.path.join(d, "out"), module + ".tla"], cwd=d, timeout=timeout)
        txt = r.stdout.decode(errors="replace")
        if expect_failure:
            # non-vacuity: with the sabotage constant the inductive step must FAIL with a counterexample (not a tool error)
            if step == 1:
                if "The outcome is: Error" not in txt:
                    raise ToolError("Apalache was expected to refute %s under %s: %s" % (inv, cinit, txt[-800:]))
                sh(["rm", "-rf", d])
                log("Apalache: %s is refuted under %s as required (non-vacuity)" % (inv, cinit))
                return time.time() - t
            if "EXITCODE: OK" not in txt:
                raise ToolError("Apalache did not establish the base case of %s: %s" % (inv, txt[-800:]))
            continue
        if "EXITCODE: OK" not in txt:
            raise ToolError("Apalache did not establish %s (step %d): %s" % (inv, step, txt[-800:]))
    sh(["rm", "-rf", d])
    w = time.time() - t
    log("Apalache: %s is an inductive invariant of %s (%.1fs)" % (inv, module, w))
    return w


# ----------------------------------------------------------------------- verdict + evidence

def known_findings():
    p = os.path.join(VERIF, "known_findings.json")
    if not os.path.exists(p):
        return []
    with open(p) as f:
        return json.load(f).get("findings", [])


class Report:
    def __init__(self, pid, tier, level):
        self.pid = pid
        self.tier = tier
        self.level = level
        self.t0 = time.time()
        self.states = 0
        self.transitions = 0
        self.evaluations = 0
        self.nontrivial = 0
        self.traces_validated = 0
        self.behaviours = 0
        self.samples = []
        self.failures = []       # dicts: fingerprint, detail, case, family
        self.tlc_runs = []
        self.nonvacuity = []
        self.extra = {}
        self.assumptions = []
        self.rule = ""
        self.exhaustive = False
        self.replay_mode = False

    def add_tlc(self, r):
        self.states += r.distinct
        self.transitions += r.generated
        self.tlc_runs.append({"cfg": r.cfg, "distinct_states": r.distinct, "states_generated": r.generated,
                              "depth": r.depth, "behaviours_emitted": r.n_replay,
                              "wall_s": round(r.wall, 1), "complete": not r.timed_out})

    def add_nonvacuity(self, r):
        self.nonvacuity.append({"cfg": r.cfg, "violated": r.violated})

    def add_replay(self, family, rr, count_traces=True):
        self.evaluations += rr["checks"]
        self.nontrivial += rr["nontrivial"]
        self.behaviours += rr["cases"]
        if count_traces:
            self.traces_validated += rr["cases"]
        for s in rr.get("samples", [])[:2]:
            if len(self.samples) < 6:
                self.samples.append(s)
        self.extra.setdefault("tags", {}).update(
            {family + ":" + k: v for k, v in rr.get("tags", {}).items()})
        for f in rr["failures"]:
            f = dict(f)
            f["family"] = family
            self.failures.append(f)
        self.extra.setdefault("failures_total", 0)
        self.extra["failures_total"] += rr["failures_total"]

    def add_failure(self, family, fingerprint, detail, case=None):
        self.failures.append({"family": family, "fingerprint": fingerprint, "detail": detail,
                              "case": case})

    def finish(self):
        wall = time.time() - self.t0
        kf = [k for k in known_findings() if k.get("property") == self.pid and k.get("status") == "open"]
        violations = []
        known_hit = {}
        for f in self.failures:
            hit = None
            for k in kf:
                if re.fullmatch(k["fingerprint"], f["fingerprint"]):
                    hit = k
                    break
            if hit:
                known_hit.setdefault(hit["fingerprint"], (hit, 0))
                known_hit[hit["fingerprint"]] = (hit, known_hit[hit["fingerprint"]][1] + 1)
            else:
                violations.append(f)
        # replay files, one per fingerprint (first instance)
        lines = []
        seen = set()
        for f in violations:
            if f["fingerprint"] in seen:
                continue
            seen.add(f["fingerprint"])
            d = os.path.join(OUT, "replays", self.pid)
            os.makedirs(d, exist_ok=True)
            body = {"property": self.pid, "family": f["family"], "fingerprint": f["fingerprint"],
                    "detail": f["detail"], "case": f.get("case")}
            hsh = hashlib.sha1(json.dumps(body, sort_keys=True).encode()).hexdigest()[:12]
            path = os.path.join(d, hsh + ".json")
            with open(path, "w") as fo:
                json.dump(body, fo, indent=1)
            lines.append("VIOLATION property=%s replay=%s" % (self.pid, path))
            log("violation %s: %s" % (f["fingerprint"], json.dumps(f["detail"])[:400]))
        for fp, (k, n) in known_hit.items():
            print("KNOWN-FINDING: property=%s %s (%d instance(s) this run; %s)"
                  % (self.pid, k["what"], n, fp))
        if not self.replay_mode:
            self.write_evidence(wall, len(violations), known_hit)
        for l in lines:
            print(l)
        sys.stdout.flush()
        return 1 if lines else 0

    def write_evidence(self, wall, nviol, known_hit):
        cov = {
            "states": self.states,
            "transitions": self.transitions,
            "traces_validated_against_impl": self.traces_validated,
            "samples": self.samples or [{"note": "no sample recorded"}],
            "evaluations": self.evaluations,
            "distinct_nontrivial": self.nontrivial,
            "rule": self.rule,
            "exhaustive": self.exhaustive,
            "behaviours_replayed": self.behaviours,
            "tlc_runs": self.tlc_runs,
            "nonvacuity_runs": self.nonvacuity,
            "known_findings_hit": {fp: n for fp, (k, n) in known_hit.items()},
        }
        cov.update(self.extra)
        ev = {
            "property_id": self.pid,
            "tier": self.tier,
            "seed": seed(),
            "level": self.level,
            "coverage": cov,
            "assumptions": self.assumptions,
            "wall_s": round(wall, 2),
            "violations": nviol,
        }
        os.makedirs(os.path.join(OUT, "evidence"), exist_ok=True)
        with open(os.path.join(OUT, "evidence", self.pid + ".json"), "w") as f:
            json.dump(ev, f, indent=1)


def replay_one(path):
    """--replay: re-run the single recorded case through its family."""
    with open(path) as f:
        body = json.load(f)
    if body.get("case") is None:
        raise ToolError("replay file has no case to re-run: %s" % path)
    nd = os.path.join(WORK, "conform", "replay_one.ndjson")
    os.makedirs(os.path.dirname(nd), exist_ok=True)
    with open(nd, "w") as fo:
        fo.write(json.dumps(body["case"]) + "\n")
    return body, replay(body["family"], nd, "replay_one")
