"""C05 - folding is mass-preserving, idempotent and symmetric under allele polarity (Fold.tla)."""
from props._generic import standard

RULE = ("TLC explores every sequence of up to MaxOps operations from {fold, mirror} on every shape in the bound; the "
        "state is a symbolic spectrum over the input cells and the fill value. Each behaviour is replayed on "
        "Spectrum::fold().into_spectrum(fill) for fills {nan, 0, -1, inf} on power-of-two (exact), random and special "
        "(subnormal, huge, -0.0) inputs, and single folds also through `sfs fold --fill`. Non-trivial: more than one "
        "cell; distinct = (shape, operation sequence).")
RULE += (" SpectrumLarge.tla: the same operator on concrete patterned spectra of 66049-90000 cells (4 shapes, every proper "
         "subset of removed axes / 5 shapes for folding), expected entries computed exactly by TLC, replayed on the library "
         "(axes ascending and descending) and on the binary (-m and the complementary -M; three fills).")
ASSUME = ["mirror is implemented independently in the harness by index arithmetic",
          "exact comparison for power-of-two and special inputs, 1e-12 relative for random inputs"]


def run(tier):
    stages = [("MCFold", "MCFold_quick.cfg", "fold")] if tier == "quick" else [
        ("MCFold", "MCFold_t1.cfg", "fold"), ("MCFold", "MCFold_t2.cfg", "fold")]
    # concrete spectra with more than 2^16 cells: a blocked / reordered / vectorised path above some size must compute the
    # same function (SpectrumLarge.tla; expected entries are integers computed by TLC from the declarative definitions)
    stages = stages + [("MCSpectrumLarge", "MCSpectrumLarge_fold.cfg", "large", {"workers": 4})]
    return standard("C05", tier, "model_checking", RULE, ASSUME, stages,
                    sabotage=[("MCFold", "MCFold_abOffBy.cfg", ["DeclEqualsAsCoded", "MassWithFillZero", "PolaritySymmetric", "Idempotent"])])
