"""C06 - statistics equal their definitions on genotypes and the published estimators (Stats.tla)."""
from props._generic import standard

RULE = ("geno: a call set grows site by site (every genotype vector over {0,1,2} per individual, sites in non-decreasing "
        "order so each multiset is one behaviour) for population structures with 1-4 populations of 1-3(4) individuals; in "
        "every state TLC checks that all 14 statistics computed from the spectrum (as the tool computes them) equal the "
        "genotype-level definitions; every state is rendered as a VCF and run through `sfs create | sfs stat -s <all "
        "admissible> --precision 12 -H` and through the Spectrum methods. estimator: 1-D count spectra (5 patterns) for n in "
        "EstimatorNs (3..400) against Watterson / Tajima / Fu-Li formulas with exact harmonic numbers (Q.class); D statistics "
        "are carried as numerator and squared denominator, the harness takes the square root. Non-trivial/distinct: distinct "
        "call set / (n, pattern).")
ASSUME = ["1e-9 relative tolerance; division by zero compared as nan/inf classes",
          "call sets are complete (no missing data) - missingness is C01/C02's subject"]


def run(tier):
    stages = [("MCStatsCheck", "MCStatsCheck_quick.cfg" if tier == "quick" else "MCStatsCheck_t1.cfg", "stats"),
              ("MCStatCli", "MCStatCli_quick.cfg", "stats"),
              # spectra with more than 2^16 cells (257 x 257, 41^3, 17^4): exact statistics from TLC against stat
              ("MCStatsCheck", "MCStatsCheck_huge.cfg", "stats", {"workers": 3})]
    return standard("C06", tier, "model_checking", RULE, ASSUME, stages,
                    sabotage=[("MCStatsCheck", "MCStatsCheck_abPi.cfg", ["SpectrumMatchesGenotypes"]),
                              ("MCStatCli", "MCStatCli_abSort.cfg", ["RowMatchesRequest"])])
