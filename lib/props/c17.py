"""C17 - every invocation ends in success or a diagnosed error, never a panic (Cli.tla)."""
from props._generic import standard

RULE = ("Cli.tla is the process outcome machine Start -> Parse -> Read -> Compute -> Write -> Exit with outcomes Exit0 | "
        "ExitErr(diag) and no Panic action; TLC enumerates every scenario: statistic(14) x all shapes with 1-3 (thorough 1-4) "
        "axes of length 1-3 (1-4) with the admissibility table (ok / err / either), view and fold option values at and "
        "beyond their bounds on degenerate shapes incl. zero-length axes, 21 empty/short/absurd inputs x 3 tools, 12 "
        "contradictory sample lists x projection, and (format, field, damage) classes for vcf/bcf/npy/text (7 damages per "
        "field). Each scenario is concretised (mutations with VERIF_SEED-seeded bytes, several seeds per class) and run on the "
        "binary: a panic is exit status 101 / death by signal / 'panicked at'; a non-zero exit must come with a diagnostic; "
        "stat must succeed where admissible and fail on wrong dimensionality. Non-trivial/distinct: distinct scenario.")
RULE_ARGS = (" CliArgs.tla is the command-line grammar as a token-consuming machine over the option tables of the four tools "
             "(once-only, repeatable, exclusive groups, conflicts, required) followed by the input-resolution rule (path / "
             "terminal on stdin / SFS_ALLOW_STDIN); TLC enumerates every command line of up to 3 (thorough 4) option occurrences "
             "incl. malformed tokens and checks that the verdict is order-free and that members of an exclusive group never both "
             "reach the tool; every line is run on the binary (a pseudo-terminal is opened where stdin is a terminal): usage "
             "errors must be exit status 2 with a diagnostic and no output, accepted lines must not be usage errors.")
ASSUME = ["grid scenarios are exhaustive in the bound (model-checked case table); mutated bytes are seeded exploration: TLC "
          "enumerates where and how a file is damaged, not the bytes",
          "binary length fields are damaged to values below 16 MiB to keep allocations cheap"]


def run(tier):
    import os
    env = {"CLI_MUTATION_SEEDS": "3" if tier == "quick" else "25"}
    stages = [("MCCli", "MCCli_quick.cfg" if tier == "quick" else "MCCli_t1.cfg", "cli"),
              ("MCCliArgs", "MCCliArgs_t1.cfg" if tier == "quick" else "MCCliArgs_t2.cfg", "cliargs")]
    rep = standard("C17", tier, "model_checking", RULE + RULE_ARGS, ASSUME, stages,
                   sabotage=[("MCCli", "MCCli_abPanics.cfg", ["NoPanic"]),
                             ("MCCliArgs", "MCCliArgs_abNoGroups.cfg", ["NoPanic", "ExclusiveGroupsRespected"])],
                   exhaustive=False, replay_env=env)
    return rep
