"""C09 - axes follow first appearance of population labels; only listed samples count."""
from props._create import create_check


def run(tier):
    return create_check(
        "C09", tier,
        "C09: every sample list of up to three distinct samples with labels {A, B, none} (quick: 144 lists, thorough: "
        "all 225) plus 'no list', the empty list and lists naming an absent sample x all 6 orders of the input columns, "
        "on three asymmetric records. TLC checks ListOrderRelations (every permutation of the list entries yields the "
        "correspondingly transposed expected spectrum; identical when first-appearance order is kept); labels containing blanks (two sharing their first word) are included; the replay runs BOTH list syntaxes for every scenario and checks "
        "the real output against the specification for every column order and with -s / --samples-file alternating.",
        ["MCCreate_perm_quick.cfg", "MCCreate_names.cfg", "MCCreate_hist_quick.cfg"], ["MCCreate_perm_t1.cfg", "MCCreate_hist_t1.cfg", "MCCreate_c01_quick.cfg", "MCCreate_names.cfg"], [],
        env={"CREATE_BOTH_SYNTAX": "1"})
