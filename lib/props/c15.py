"""C15 - npy output conforms to NPY 1.0; every supported numpy dtype is read exactly."""
from props._generic import standard

RULE = ("writer: TLC checks the layout invariant (data offset multiple of 64, header newline-terminated, exact dict) for "
        "217 shapes whose dict lengths realise every residue modulo 64 (ASSUME in MCNpyCheck) and emits the exact expected "
        "header; Array::write_npy and `sfs view -O npy` must produce those bytes (values incl. NaN payload, inf, -0.0, "
        "subnormal). reader: the matrix dtype(10) x byte order(<,>,|) x version(1,2,3) x numpy header spellings (quick 8, "
        "thorough all 192), each file carrying every boundary byte pattern of its type; expected values come from "
        "NpyFile!Decode (two's complement / IEEE-754 by exact rational arithmetic) and are compared bit for bit through "
        "Array::read_npy and `sfs view`. reject: Fortran order and unsupported descr. Non-trivial/distinct: distinct file.")
ASSUME = ["numpy's layout is modelled from the NPY format document (NEP 1); no numpy is run",
          "expected float64 values are parsed by the harness from 40-digit decimals printed by Q.class",
          "1- and 2-byte types are covered by boundary patterns here, not all 65536 values"]


def run(tier):
    stages = [("MCNpyCheck", "MCNpyCheck_quick.cfg" if tier == "quick" else "MCNpyCheck_t1.cfg", "npy")]
    return standard("C15", tier, "model_checking", RULE, ASSUME, stages,
                    sabotage=[("MCNpyCheck", "MCNpyCheck_abPadZero.cfg", ["WriterOk"])])
