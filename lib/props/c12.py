"""C12 - output depends only on call data, not container, transport, threads or run."""
import json
import os

import vcore
from vcore import Report, tlc_must_pass, tlc_must_violate, replay

RULE = ("schedules (model): BgzfPool.tla - reader thread dispatching blocks to a pool of 1-3 workers that finish in any order, "
        "consumer taking results in file order; TLC explores every interleaving for 4-5 blocks incl. an empty block and "
        "checks in-order delivery, no loss/duplication, and completion (liveness under weak fairness). containers (real "
        "code): every behaviour of Create.tla over a 4-sample / up-to-4-population scenario set is rendered as vcf, vcf.gz "
        "(one block, one line per block, empty blocks interspersed, 97-byte blocks), raw bcf and bcf.gz (one block, 61-byte "
        "blocks, empty first block), fed by path and by stdin with --threads in {1,2,3,4,8,16}, twice each under different "
        "LANG/TZ/HOME/RUST_LOG, plus real pipes whose first read returns 1-2 bytes; every run must produce the stdout bytes "
        "the specification expects and the same exit status. cohort: pseudo-random cohorts (64 KiB / 4 KiB blocks, threads "
        "1/4/16) must agree byte for byte across containers. Non-trivial/distinct: distinct scenario.")
ASSUME = ["worker-pool interleavings are exhaustive in the model only; on the real binary they are sampled (threads x layouts x "
          "repeats) - noodles-bgzf offers no scheduler hook",
          "hash-seed independence is sampled: 4-population scenarios run 18+ times each (a dependence would show with "
          "probability 23/24 per pair of runs)",
          "BGZF framing and BCF encoding are the harness's own"]


def run(tier):
    rep = Report("C12", tier, "model_checking")
    rep.rule = RULE
    rep.exhaustive = False
    rep.assumptions = ASSUME
    for i, cfg in enumerate(["MCBgzfPool_w1.cfg", "MCBgzfPool_w2.cfg", "MCBgzfPool_w3.cfg"]):
        rep.add_tlc(tlc_must_pass("c12_pool%d" % i, "MCBgzfPool", cfg, workers=4, timeout=600))
    rep.add_nonvacuity(tlc_must_violate("c12_ab", "MCBgzfPool", "MCBgzfPool_abUnordered.cfg", ["InOrder"]))
    cfg = "MCCreate_c12_quick.cfg" if tier == "quick" else "MCCreate_c12_t1.cfg"
    r = tlc_must_pass("c12_create", "MCCreate", cfg, workers=8, timeout=3000)
    rep.add_tlc(r)
    cohorts = [dict(family="container", kind="cohort", seed=vcore.seed() * 13 + 7, samples=40, records=300, pops=3, missing_pct=10)]
    if tier == "thorough":
        cohorts += [dict(family="container", kind="cohort", seed=vcore.seed() + 101, samples=200, records=3000, pops=4, missing_pct=25),
                    dict(family="container", kind="cohort", seed=vcore.seed() + 5, samples=400, records=1500, pops=2, missing_pct=0)]
    with open(r.replay, "a") as fo:
        for c in cohorts:
            fo.write(json.dumps(c) + "\n")
    rep.add_replay("container", replay("container", r.replay, "c12_create"))
    return rep
