"""C14 - statistics are invariant under the transformations that must not matter (StatRel.tla)."""
from props._generic import standard

RULE = ("TLC explores every sequence of up to MaxOps operations from {fold with fill 0, swap the two populations, scale by "
        "1/3 | 2 | 1000, overwrite the monomorphic entries with (0,5) | (9,1/2)} from patterned integer spectra of 1-4 axes "
        "with unequal lengths; RelationsHold (each statistic unchanged / scaled by the accumulated factor as long as only "
        "operations it is claimed insensitive to were applied) and FCombinations (f3, f4 from f2 of two-population marginals) "
        "are invariants over the specification's own statistics, so TLC first confirms the demanded relations are true. "
        "Every state is replayed: the operations on real Spectrum methods, every admissible statistic against the exact "
        "value, each claimed relation on the real values, f3/f4 on real marginals, and fold --fill zero | stat through the "
        "binary. Non-trivial/distinct: distinct (start spectrum, operation sequence).")
ASSUME = ["Fu and Li's D is deliberately not claimed fold-invariant (the sabotage config that claims it is rejected by TLC)",
          "1e-9 relative tolerance"]


def run(tier):
    stages = [("MCStatRel", "MCStatRel_quick.cfg" if tier == "quick" else "MCStatRel_t1.cfg", "statrel")]
    return standard("C14", tier, "model_checking", RULE, ASSUME, stages,
                    sabotage=[("MCStatRel", "MCStatRel_abFuLi.cfg", ["RelationsHold"])])
