"""C10 - every record is counted once or reported skipped; strict mode; no partial output."""
import json
import os
import shutil

import vcore
from props._create import create_check, SAB_SCRATCH, SAB_RESET


def run(tier):
    rep = create_check(
        "C10", tier,
        "C10: all record sequences of length <= 3 (thorough: 3 over 9 classes, 4 over 5 classes) over record classes "
        "{complete, partially missing, last column missing, multiallelic, (monomorphic, all missing)} plus fault rows "
        "(haploid/triploid call in a selected sample, corrupt line / BCF stream ending inside a record) at every position; every scenario also runs through the BCF path x 3 lists x no projection + every "
        "projection target x strict on/off. Conservation (mass + skipped = sites) is a TLC invariant of every state.",
        ["MCCreate_hist_quick.cfg", "MCCreate_fmt.cfg", "MCCreate_fault2.cfg", "MCCreate_samepos.cfg"],
        ["MCCreate_hist_t1.cfg", "MCCreate_hist_t2.cfg", "MCCreate_fmt.cfg", "MCCreate_fault2.cfg", "MCCreate_samepos.cfg"],
        [SAB_SCRATCH, SAB_RESET], env={"CREATE_ALSO": "bcf"})

    # cohorts of hundreds of samples (class-level records, CreateLarge.tla): weight exactly one per counted record
    rl = vcore.tlc_must_pass("c10_large", "MCCreateLarge", "MCCreateLarge_quick.cfg" if tier == "quick" else "MCCreateLarge_t1.cfg",
                             workers=4, timeout=3000)
    rep.add_tlc(rl)
    rep.add_replay("createlarge", vcore.replay("createlarge", rl.replay, "c10_large"))
    # Create.tla refines the counter machine ...
    r = vcore.tlc_must_pass("c10_refine", "MCCreate", "MCCreate_refine.cfg", workers=8, timeout=3000)
    rep.add_tlc(r)
    # ... whose conservation invariant is inductive: streams of any length (Apalache)
    w = vcore.apalache_inductive("c10_counters", "CreateCounters", "CInit", "CNext", "IndInv")
    rep.extra["apalache_inductive"] = {"module": "CreateCounters", "invariant": "IndInv", "obligations": 2, "wall_s": round(w, 1)}
    # ... and traces recorded from the real create loop (hook H1) are validated against it by TLC
    trace, summary = vcore.record_create_trace("c10", big=(tier == "thorough"))
    v = vcore.validate_trace("c10_trace", trace)
    rep.add_tlc(v["tlc"])
    nruns = len(summary["runs"])
    rep.extra["trace_validation"] = {"runs_recorded": nruns, "events": v["events"], "accepted": v["accepted"],
                                     "exit_codes": [x["code"] for x in summary["runs"]]}
    rep.rule += (" Trace validation: %d real `sfs create` runs (repository fixtures and pseudo-random cohorts, with/without "
                 "projection and --strict) recorded through hook H1 (%d events) and replayed by TLC against CreateTrace.tla, "
                 "which reuses the actions of CreateCounters.tla; Create.tla refines CreateCounters (TLC) and its invariant "
                 "is inductive (Apalache), so conservation holds for streams of any length." % (nruns, v["events"]))
    if any(x["panicked"] for x in summary["runs"]):
        rep.add_failure("trace", "create/trace/panic", {"runs": [x for x in summary["runs"] if x["panicked"]]})
    if v["accepted"]:
        rep.traces_validated += nruns
        rep.evaluations += v["events"]
        rep.samples.append({"trace_events": [json.loads(l) for l in open(trace).read().splitlines()[:6]]})
    else:
        keep = os.path.join(vcore.VERIF, "replays", "C10")
        os.makedirs(keep, exist_ok=True)
        shutil.copy(trace, os.path.join(keep, "rejected.trace.ndjson"))
        kind = "invariant-" + v["violated"] if v["violated"] else "unmatched-event"
        rep.add_failure("trace", "create/trace-rejected/" + kind,
                        {"matched_prefix": v["matched"], "first_unmatched_event": v["first_unmatched"],
                         "violated_invariant": v["violated"], "trace": os.path.join(keep, "rejected.trace.ndjson")})
    return rep
