"""C10 - every record is counted once or reported skipped; strict mode; no partial output."""
from props._create import create_check, SAB_SCRATCH, SAB_RESET


def run(tier):
    return create_check(
        "C10", tier,
        "C10: all record sequences of length <= 3 (thorough: 3 over 9 classes, 4 over 5 classes) over record classes "
        "{complete, partially missing, last column missing, multiallelic, (monomorphic, all missing)} plus fault rows "
        "(haploid/triploid call in a selected sample, corrupt line) at every position x 3 lists x no projection + every "
        "projection target x strict on/off. Conservation (mass + skipped = sites) is a TLC invariant of every state.",
        ["MCCreate_hist_quick.cfg"], ["MCCreate_hist_t1.cfg", "MCCreate_hist_t2.cfg"],
        [SAB_SCRATCH, SAB_RESET])
