"""C13 - view = marginalize > project > mask > normalize, equal to chained single steps (View.tla)."""
from props._generic import standard

RULE = ("TLC enumerates, for every shape in the bound, every option selection (every marginalization subset x {no projection, "
        "each axis one shorter, each axis at most 2} x mask on/off x normalize on/off) and applies the selected operators as "
        "actions in the documented order on a symbolic spectrum with a symbolic divisor; EqualsDocumented, MaskExact, "
        "NormalizedSumsToOne, NoOptionsIsIdentity are invariants. Each selection is run as ONE `sfs view` invocation and as a "
        "chain of single-option invocations with npy in between; the two outputs must be bit-identical and both equal the "
        "exact expectation (1e-12; 1e-9 with projection); the combined invocation writes to the destination drawn by the model "
        "(stdout, or -o PATH onto a fresh path, onto an older and longer file, onto the input file itself) and the bytes found "
        "there are what is compared (DestinationHoldsOnlyResult); text output at precision 6 and 12 to the printed precision. "
        "The axis lists of -m/-M are explored as typed: every order of naming every subset of up to 4 axes, the model removing one axis "
        "at a time in that order with the renumbering this needs (RemoveInOrder) and the invariant saying the order is immaterial. "
        "Non-trivial/distinct: distinct (shape, selection). The AnyOrder configuration must violate EqualsDocumented.")
ASSUME = ["inputs are random positive reals; all-masked spectra normalise to NaN (0/0) in both model reading and tool",
          "projection targets per shape are two representatives, not all admissible targets (C03 covers those)"]


def run(tier):
    # MCView_names: the axis lists of -m/-M are lists AS TYPED - every order of naming, removed one axis at a time in that order
    stages = [("MCView", "MCView_quick.cfg", "view"), ("MCView", "MCView_names.cfg", "view")] if tier == "quick" else [
        ("MCView", "MCView_t1.cfg", "view"), ("MCView", "MCView_t2.cfg", "view"), ("MCView", "MCView_names.cfg", "view")]
    return standard("C13", tier, "model_checking", RULE, ASSUME, stages,
                    sabotage=[("MCView", "MCView_abAnyOrder.cfg", ["EqualsDocumented"]),
                              ("MCView", "MCView_abKeepTail.cfg", ["DestinationHoldsOnlyResult"]),
                              ("MCView", "MCView_abNamed.cfg", ["EqualsDocumented"])])
