"""C04 - marginalization is the array sum over the removed axes (Marginalize.tla)."""
from props._generic import standard

RULE = ("TLC explores, for every shape in the bound, every order of one-axis removals (paths) and a probe table of "
        "every axis sequence up to length MaxProbeLen over 0..dims+1 (valid and invalid). Each state is a symbolic "
        "spectrum (linear forms over the input cells); every path prefix is replayed on Spectrum::marginalize one "
        "axis at a time and jointly in the named order, and through `sfs view -m/-M` (text and npy input), on integer "
        "and real inputs. Non-trivial: more than one cell; distinct = (shape, ordered removal sequence).")
RULE += (" SpectrumLarge.tla: the same operator on concrete patterned spectra of 66049-90000 cells (4 shapes, every proper "
         "subset of removed axes / 5 shapes for folding), expected entries computed exactly by TLC, replayed on the library "
         "(axes ascending and descending) and on the binary (-m and the complementary -M; three fills).")
ASSUME = ["symbolic cells are evaluated in f64 by the harness: exact for integer inputs, 1e-12 relative for reals",
          "bounds per tlc_runs[].cfg"]


def run(tier):
    stages = [("MCMarginalize", "MCMarginalize_quick.cfg", "marginalize")] if tier == "quick" else [
        ("MCMarginalize", "MCMarginalize_t1.cfg", "marginalize"),
        ("MCMarginalize", "MCMarginalize_t2.cfg", "marginalize")]
    # concrete spectra with more than 2^16 cells: a blocked / reordered / vectorised path above some size must compute the
    # same function (SpectrumLarge.tla; expected entries are integers computed by TLC from the declarative definitions)
    stages = stages + [("MCSpectrumLarge", "MCSpectrumLarge_marg.cfg", "large", {"workers": 4})]
    return standard("C04", tier, "model_checking", RULE, ASSUME, stages,
                    sabotage=[("MCMarginalize", "MCMarginalize_abNoShift.cfg", ["AsCodedAgrees", "ProbeSound"])])
