"""C07 - spectrum files round-trip through text and npy; the tool reads what it writes."""
from props._generic import standard

RULE = ("chain: TLC enumerates every chain producer(create | seed text | seed npy) -> up to MaxSteps-1 transformers "
        "(view -O text|npy --precision p, fold --precision p; to a file with -o or to a pipe) -> consumer (view, fold, "
        "stat); it tracks the artefact in flight, checks that its first six bytes identify exactly the written format, and "
        "computes the exact worst-case rounding bound; every chain is executed with real sfs processes over real files and "
        "pipes: each step must exit 0, write the announced format with unchanged shape, and the final values must lie "
        "within the bound. roundtrip: library write -> read for 7 shapes (1-6 axes) x {text, npy} x precision 0..17 on a "
        "pool of finite/subnormal/huge/negative/-0.0/NaN-payload/inf values (npy bit-identical, text within half a unit). "
        "digits: 72 printed values of at most 15 significant digits survive text -> npy -> text byte for byte. "
        "Non-trivial/distinct: distinct chain / (shape, format, precision) / printed value.")
ASSUME = ["`create` output is taken as the chain's starting value (its correctness is C01/C02)",
          "fold's arithmetic is taken from the library when computing the expected final values (C05 checks it)",
          "the digits clause is an enumerated grid, not all 15-digit decimals"]


def run(tier):
    # the thorough chains (three steps) are tens of thousands of real process pipelines: allow the replay three hours
    stages = [("MCToolChain", "MCToolChain_quick.cfg", "toolchain")] if tier == "quick" else [
        ("MCToolChain", "MCToolChain_t1.cfg", "toolchain", {"replay_timeout": 10800})]
    return standard("C07", tier, "model_checking", RULE, ASSUME, stages,
                    sabotage=[("MCToolChain", "MCToolChain_abHeader.cfg", ["DetectedAsWritten"])])
