"""C03 - projection is exact hypergeometric down-sampling at every size; its laws hold (Project.tla)."""
from props._generic import standard

RULE = ("grid: TLC explores every interleaving of one-chromosome down-sampling steps from every shape in the bound to "
        "every admissible target and checks closed form = composition, two-step = direct, mass, sign, identity and "
        "commutation with marginalization; each (from, to) operator matrix is replayed on Scs::project on every basis "
        "vector (every coefficient), random/signed/huge vectors, two-step, and `sfs view --project-shape/-p`. reject: "
        "every inadmissible target (zero, larger, wrong dimensionality) must be an error. large: exact one-axis rows "
        "(Q.class, BigInteger) for n up to thousands. Non-trivial: from != to; distinct = (from, to) or (n, m, k).")
ASSUME = ["coefficients compared at 1e-9 (grid) and 1e-9 absolute + 1e-6 relative (large sizes, log-gamma path)",
          "Q.class evaluates the same definitions as Q.tla (drift-checked by MCQ in C03 thorough)"]


def run(tier):
    stages = [("MCProject", "MCProject_quick.cfg", "project")] if tier == "quick" else [
        ("MCProject", "MCProject_t1.cfg", "project"), ("MCProject", "MCProject_t2.cfg", "project")]
    # inadmissible targets are also rejected when projecting during creation (Create.tla, build step)
    stages.append(("MCCreate", "MCCreate_badproj.cfg", "create"))
    # projection DURING creation runs one projector over a whole stream: histories of records with equal allele counts and
    # different called totals, every admissible target of two populations (the coefficients of a record must not depend on
    # the records before it)
    stages.append(("MCCreate", "MCCreate_cache.cfg", "create"))
    # two axes at sizes where the joint denominator C(n1,m1) C(n2,m2) leaves the f64 range (through create: Spectrum::project
    # visits every source cell against every target cell and is not usable at these sizes)
    stages.append(("MCCreateLarge", "MCCreateLarge_joint.cfg", "createlarge", {"workers": 2}))
    return standard("C03", tier, "model_checking", RULE, ASSUME, stages,
                    sabotage=[("MCProject", "MCProject_abWrongStep.cfg", ["ClosedForm", "TwoStepEqualsDirect"])])
