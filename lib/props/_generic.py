"""The common shape of a check: TLC accepts the reference configs and emits behaviours -> replay each
against the real code; sabotage (as-built) configs must violate an invariant (non-vacuity)."""
from vcore import Report, tlc_must_pass, tlc_must_violate, replay


def standard(pid, tier, level, rule, assumptions, stages, sabotage=(), exhaustive=True, rep=None,
             replay_env=None):
    """stages: [(module, cfg, family)] or [(module, cfg, family, opts)], sabotage: [(module, cfg, [invariants])]"""
    rep = rep or Report(pid, tier, level)
    rep.rule = rule
    rep.exhaustive = exhaustive
    rep.assumptions = list(assumptions)
    for i, st in enumerate(stages):
        module, cfg, family = st[0], st[1], st[2]
        opts = st[3] if len(st) > 3 else {}
        tag = "%s_%d" % (pid.lower(), i)
        r = tlc_must_pass(tag, module, cfg, workers=opts.get("workers", 8), timeout=opts.get("timeout", 3000),
                          extra=opts.get("extra"))
        rep.add_tlc(r)
        if family:
            rep.add_replay(family, replay(family, r.replay, tag, env=replay_env, timeout=opts.get("replay_timeout", 3600)))
    for i, (module, cfg, expected) in enumerate(sabotage):
        rep.add_nonvacuity(tlc_must_violate("%s_ab%d" % (pid.lower(), i), module, cfg, expected, timeout=900))
    return rep
