"""C16 - damaged spectrum files are rejected, never read as a different spectrum."""
from props._generic import standard

RULE = ("npy: for each base file (version x dtype/itemsize x shape incl. zero-length axes) TLC checks on the reader model "
        "that the intact file is accepted and EVERY strict prefix and every extension by 1..16 bytes is rejected; the "
        "harness builds the file and tries every truncation offset and every extension on Array::read_npy, and view/fold/"
        "stat of the binary on the cuts around every segment boundary. text: TLC explores up to MaxFaults edits (drop/insert "
        "a value token, change one declared length by +-1, drop/add an axis); the reader must accept exactly when the token "
        "count equals the product of the declared shape. TextGrammar.tla is the accepted language of the text reader at the "
        "level of characters (format detection, lax header trimming, usize and f64 literal grammars, white-space splitting, "
        "count = product): 21 header spellings x 14 body layouts x 24 value spellings, each replayed on the library reader and "
        "on `sfs view` (accept with shape and count, or reject). Non-trivial/distinct: distinct damaged file.")
ASSUME = ["a rejected input must also leave stdout empty and give a diagnostic; a panic counts as a violation",
          "text files are rendered with single spaces and 6 decimals"]


def run(tier):
    if tier == "quick":
        stages = [("MCNpyCheck", "MCNpyCheck_quick.cfg", "npy"), ("MCTextFile", "MCTextFile_quick.cfg", "text"),
                  ("MCTextGrammar", "MCTextGrammar_t1.cfg", "textgrammar")]
    else:
        stages = [("MCNpyCheck", "MCNpyCheck_t1.cfg", "npy"), ("MCTextFile", "MCTextFile_t1.cfg", "text"),
                  ("MCTextGrammar", "MCTextGrammar_t1.cfg", "textgrammar")]
    return standard("C16", tier, "fault_enumeration", RULE, ASSUME, stages,
                    sabotage=[("MCNpyCheck", "MCNpyCheck_abStopAtCount.cfg", ["DamageOk"]),
                              ("MCTextGrammar", "MCTextGrammar_abBlankOnly.cfg", ["WhitespaceInsensitive", "CanonicalAccepted"])])
