"""C11 - a site's contribution is independent of earlier sites (additive, order-free)."""
from props._create import create_check, SAB_SCRATCH, SAB_RESET


def run(tier):
    rep = create_check(
        "C11", tier,
        "C11: the accumulators counts/totals/skips and the projection scratch index are persistent variables of the "
        "model, reset explicitly as in the code; FinalIsSumOfContributions and PerRecordContribution make the result "
        "additive and order-free for ALL histories in the bound (every ordering of every multiset is its own behaviour); "
        "the library replay compares the site delivered for each record after every prefix history.",
        ["MCCreate_hist_quick.cfg", "MCCreate_fmt.cfg", "MCCreate_cache.cfg", "MCCreate_private.cfg"],
        ["MCCreate_hist_t1.cfg", "MCCreate_hist_t2.cfg", "MCCreate_fmt.cfg", "MCCreate_cache.cfg", "MCCreate_private.cfg"],
        [SAB_RESET, SAB_SCRATCH])
    # cohort-size histories with projection in two orders (CreateLarge.tla): nothing computed for one record may
    # influence another, also not through caches inside the hypergeometric weights
    import vcore
    r = vcore.tlc_must_pass("c11_large", "MCCreateLarge", "MCCreateLarge_quick.cfg" if tier == "quick" else "MCCreateLarge_t1.cfg",
                            workers=4, timeout=3000)
    rep.add_tlc(r)
    rep.add_replay("createlarge", vcore.replay("createlarge", r.replay, "c11_large"))
    return rep
