"""C01 - create counts every complete site once at its per-population ALT index."""
from props._create import create_check, SAB_SUM, SAB_RESET


def run(tier):
    rep = create_check(
        "C01", tier,
        "C01: no projection; every row over a 9-call alphabet (phased/unphased, missing, partially missing, multiallelic, "
        "0/2, haploid) for three samples x 11 sample lists (1-3 populations, subsets, named/unnamed) x strict on/off; "
        "histories of up to 3 records for the accumulation; unselected samples carry every call incl. ploidy errors; every scenario also runs through the BCF path (raw, or BGZF with an optional empty leading block).",
        ["MCCreate_c01_quick.cfg", "MCCreate_names.cfg", "MCCreate_fmt.cfg", "MCCreate_hist_quick.cfg"], ["MCCreate_c01_quick.cfg", "MCCreate_hist_t1.cfg", "MCCreate_perm_quick.cfg", "MCCreate_names.cfg", "MCCreate_fmt.cfg"],
        [SAB_SUM, SAB_RESET], env={"CREATE_ALSO": "bcf", "CREATE_BOTH_SYNTAX": "1"})
    # a cohort whose output has more than 2^16 cells (2 x 128 individuals, 257 x 257): the writer and every reduction run
    # beyond any block size (CreateLarge.tla, factored form)
    import vcore
    r = vcore.tlc_must_pass("c01_wide", "MCCreateLarge", "MCCreateLarge_wide.cfg", workers=2, timeout=900)
    rep.add_tlc(r)
    rep.add_replay("createlarge", vcore.replay("createlarge", r.replay, "c01_wide"))
    return rep
