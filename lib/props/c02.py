"""C02 - create --project: hypergeometric down-sampling of every covered site."""
from props._create import create_check, SAB_SCRATCH, SAB_RESET


def run(tier):
    return create_check(
        "C02", tier,
        "C02: every admissible projection target (each m_j from 0 to 2n_j) for every list x every row over the call "
        "alphabet; the three apply paths (exact t=m, projected, insufficient) are distinguished per record; inadmissible "
        "targets (zero, too large, wrong dimensionality) must fail at build; values compared to the exact rational "
        "within half a unit of the printed precision (0, 1, 6, 12 decimals) + 1e-9.",
        ["MCCreate_c02_quick.cfg", "MCCreate_badproj.cfg"],
        ["MCCreate_c02_t1.cfg", "MCCreate_badproj.cfg", "MCCreate_hist_t1.cfg"],
        [SAB_SCRATCH, SAB_RESET])
