"""C02 - create --project: hypergeometric down-sampling of every covered site."""
from props._create import create_check, SAB_SCRATCH, SAB_RESET


def run(tier):
    rep = create_check(
        "C02", tier,
        "C02: every admissible projection target (each m_j from 0 to 2n_j) for every list x every row over the call "
        "alphabet; the three apply paths (exact t=m, projected, insufficient) are distinguished per record; inadmissible "
        "targets (zero, too large, wrong dimensionality) must fail at build; values compared to the exact rational "
        "within half a unit of the printed precision (0, 1, 6, 12 decimals) + 1e-9. Histories of up to three projected records of "
        "two populations at EVERY admissible target (also targets of no chromosomes on the first axis): the projector and its "
        "coordinate buffer are reused from record to record.",
        ["MCCreate_c02_quick.cfg", "MCCreate_badproj.cfg", "MCCreate_cache.cfg"],
        ["MCCreate_c02_t1.cfg", "MCCreate_badproj.cfg", "MCCreate_hist_t1.cfg", "MCCreate_cache.cfg"],
        [SAB_SCRATCH, SAB_RESET])
    # cohorts of hundreds of samples, at class level (CreateLarge.tla)
    from vcore import tlc_must_pass, replay
    r = tlc_must_pass("c02_large", "MCCreateLarge", "MCCreateLarge_quick.cfg" if tier == "quick" else "MCCreateLarge_t1.cfg",
                      workers=4, timeout=3000)
    rep.add_tlc(r)
    rep.add_replay("createlarge", replay("createlarge", r.replay, "c02_large"))
    for tag, cfg in [("c02_joint", "MCCreateLarge_joint.cfg"), ("c02_wide", "MCCreateLarge_wide.cfg")]:
        r2 = tlc_must_pass(tag, "MCCreateLarge", cfg, workers=2, timeout=900)
        rep.add_tlc(r2)
        rep.add_replay("createlarge", replay("createlarge", r2.replay, tag))
    # the cell order of one projected site for targets of any size (ProjOdometer.tla): inductive invariant, Apalache
    import vcore
    w = vcore.apalache_inductive("c02_projodometer", "ProjOdometer", "PInit", "PNext", "IndInv", cinit="ConstInit")
    vcore.apalache_inductive("c02_projodometer_ab", "ProjOdometer", "PInit", "PNext", "IndInv", cinit="ConstInitAB", expect_failure=True)
    rep.extra["apalache_inductive"] = {"module": "ProjOdometer", "invariant": "IndInv", "obligations": 2, "wall_s": round(w, 1),
                                       "non_vacuity": "refuted under ConstInitAB (AB_NoZero: coordinates of the previous site kept)",
                                       "bound_to_code_by": "the two-population createlarge replays above compare every cell of 541 x 541, 1029 x 41 and 257 x 257 targets"}
    rep.rule += (" The order in which the weights of one site meet the cells of the spectrum (ProjectIter's coordinates against the "
                 "row-major cells, with the coordinate buffer reused from site to site) is an inductive invariant of ProjOdometer.tla "
                 "for two populations with targets of ANY size (Apalache).")
    rep.rule += (" Two-population cohorts whose JOINT denominator leaves the f64 range (2 x 270 and 514 + 20 individuals) and a "
                 "cohort whose output has 257 x 257 cells are checked in factored form: TLC checks that every one-axis row is a "
                 "distribution and (on small scenarios) that the contribution is the outer product of the rows; the replay sums "
                 "the outer products.")
    rep.rule += (" Cohorts: CreateLarge.tla applies class-level records (called individuals, ALT alleles per population) of "
                 "populations with up to 600 individuals (sizes around 1030 chromosomes, where binomial coefficients leave the "
                 "f64 range) and emits the exact projected spectrum; each scenario is rendered as a VCF and run through "
                 "`sfs create --project-shape / -p`.")
    return rep
