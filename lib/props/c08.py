"""C08 - genotype to allele-count classification is total and exact."""
from props._create import create_check, SAB_SUM


def run(tier):
    return create_check(
        "C08", tier,
        "C08: every GT string of ploidy 1-3 over alleles {., 0, 1, 2(, 3)} and separators {/, |} (quick 283 strings, "
        "thorough all 555) placed in the selected or the unselected column of the first, middle or last of three records, "
        "with and without projection/strict, and with BOTH columns selected where the other selected sample is missing or multiallelic in the column before or after the probed call; each scenario runs through the VCF text path and the BCF binary path (raw or "
        "BGZF, own encoder). Genotypes.ClassifyLaws (totality, phasing-independence, precedence) is checked by TLC on the "
        "whole alphabet. A lone '.' is the VCF missing value and is read as Missing (see DESIGN.md).",
        ["MCCreate_gt_quick.cfg", "MCCreate_gt2_quick.cfg", "MCCreate_alt.cfg"], ["MCCreate_gt_t1.cfg", "MCCreate_gt2_t1.cfg", "MCCreate_alt.cfg"],
        [SAB_SUM], env={"CREATE_ALSO": "bcf"})
