"""C19 - array, axis-view and iterator API invariants (ArrayApi.tla <-> sfs_core::array)."""
import vcore
from vcore import Report, tlc_must_pass, tlc_must_violate, replay

SABOTAGE = [
    ("MCArrayApi_abViewRestart.cfg", ["Fused", "LenExact", "YieldsExpectedPrefix", "NoPanic"]),
    ("MCArrayApi_abAxisLen.cfg", ["LenExact"]),
    ("MCArrayApi_abGetAxis.cfg", ["TableNoPanic", "NoPanic"]),
    ("MCArrayApi_abView0Dim.cfg", ["NoPanic", "YieldsExpectedPrefix", "Fused"]),
    ("MCArrayApi_abNth.cfg", ["LenExact", "NoPanic", "YieldsExpectedPrefix"]),
    ("MCArrayApi_abClone.cfg", ["LenExact", "YieldsExpectedPrefix", "Fused"]),
]


def run(tier):
    rep = Report("C19", tier, "model_checking")
    rep.rule = ("TLC enumerates every shape in the bound x every object (indices iterator, frequency iterator, "
                "axis iterator per axis, view iterator per (axis, position), probe table of get/get_axis/sum); "
                "each behaviour is a call history (len() then next(), with up to NthBudget calls of nth(n) in any position on "
                "small arrays) continued 3 calls past exhaustion and is "
                "replayed call by call on sfs_core::array under catch_unwind. A case is non-trivial when the "
                "array has more than one cell; distinct = distinct (shape, object).")
    rep.exhaustive = True
    rep.assumptions = [
        "cells hold their own flat position, so returned elements identify cells",
        "bounds: see tlc_runs[].cfg for the shape sets",
        "TLC, the Json community module and the harness comparison code are trusted",
    ]
    cfgs = ["MCArrayApi_quick.cfg", "MCArrayApi_zero.cfg"] if tier == "quick" else [
        "MCArrayApi_t1.cfg", "MCArrayApi_t2.cfg", "MCArrayApi_t3.cfg", "MCArrayApi_zero.cfg"]
    for i, cfg in enumerate(cfgs):
        r = tlc_must_pass("c19_%d" % i, "MCArrayApi", cfg, workers=8, timeout=3000)
        rep.add_tlc(r)
        rep.add_replay("array", replay("array", r.replay, "c19_%d" % i))
    # the array as memory: histories of writes through every mutable access path, everything read back after each
    # step through every read path (ArrayMem.tla)
    mem = ["MCArrayMem_quick.cfg", "MCArrayMem_cat.cfg"] if tier == "quick" else ["MCArrayMem_t1.cfg", "MCArrayMem_cat.cfg"]
    for i, cfg in enumerate(mem):
        r = tlc_must_pass("c19_mem%d" % i, "MCArrayMem", cfg, workers=4, timeout=3000)
        rep.add_tlc(r)
        rep.add_replay("arraymem", replay("arraymem", r.replay, "c19_mem%d" % i))
    # the odometer of the view iterator for lengths and strides of ANY size: inductive invariant (Apalache), and the same
    # module with concrete large constants run by TLC and replayed (whole histories folded into a hash)
    w = vcore.apalache_inductive("c19_odometer", "Odometer", "OInit", "ONext", "IndInv", cinit="ConstInit")
    vcore.apalache_inductive("c19_odometer_ab", "Odometer", "OInit", "ONext", "IndInv", cinit="ConstInitAB", expect_failure=True)
    rep.extra["apalache_inductive"] = {"module": "Odometer", "invariant": "IndInv", "obligations": 2, "wall_s": round(w, 1),
                                       "non_vacuity": "refuted under ConstInitAB (AB_NoBackstride)"}
    w3 = vcore.apalache_inductive("c19_odometer3", "Odometer3", "OInit", "ONext", "IndInv", cinit="ConstInit")
    vcore.apalache_inductive("c19_odometer3_ab", "Odometer3", "OInit", "ONext", "IndInv", cinit="ConstInitAB", expect_failure=True)
    rep.extra["apalache_inductive_3_axes"] = {"module": "Odometer3", "invariant": "IndInv", "obligations": 2, "wall_s": round(w3, 1),
                                              "non_vacuity": "refuted under ConstInitAB (AB_NoBackstride)"}
    for mod, cs in (("MCOdometer", "abcd"), ("MCOdometer3", "abcde")):
        for c in cs:
            r = tlc_must_pass("c19_%s%s" % (mod[2:].lower(), c), mod, "%s_%s.cfg" % (mod, c), workers=1, timeout=600)
            rep.add_tlc(r)
            rep.add_replay("array", replay("array", r.replay, "c19_%s%s" % (mod[2:].lower(), c)))
    rep.add_nonvacuity(tlc_must_violate("c19_abmem", "MCArrayMem", "MCArrayMem_abCol.cfg", ["LastWriteWins"], timeout=600))
    for i, (cfg, expected) in enumerate(SABOTAGE):
        rep.add_nonvacuity(tlc_must_violate("c19_ab%d" % i, "MCArrayApi", cfg, expected, timeout=600))
    return rep
