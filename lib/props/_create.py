"""Shared text for the checks that are decided by Create.tla (C01 C02 C08 C09 C10 C11)."""
from props._generic import standard

RULE_COMMON = ("Every behaviour TLC enumerates from Create.tla (scenario drawn in Init: column order, sample list, "
               "projection target, strict flag, record sequence; then Build/ReadSite/Apply*/Finish steps) is checked against "
               "the declarative oracle by TLC in every state (Conservation, FinalIsSumOfContributions, FailsWhereExpected, "
               "NoPartialOutput, UnselectedIrrelevant, PerRecordContribution) and replayed (i) through the library "
               "(site::Reader::read_site record by record: site kind, contribution, skipped samples, error site) and (ii) "
               "through the `sfs create` binary (exact stdout bytes / values to the printed precision, exit status, skip "
               "summary, diagnostics, -vv trace lines; -s and -S, --project-shape and -p, path and stdin alternate). "
               "Non-trivial: at least one record; distinct = distinct scenario. ")
ASSUME = ["bounded scenario sets, see tlc_runs[].cfg and spec/mc/MCCreate.tla",
          "VCF/BCF files are synthesised by the harness (own VCF renderer, own BCF 2.2 encoder, own BGZF framing)",
          "TLC, Q.class and the harness comparison code are trusted"]
SAB_RESET = ("MCCreate", "MCCreate_abNoReset.cfg", ["PerRecordContribution", "FinalIsSumOfContributions", "Conservation", "FailsWhereExpected"])
SAB_SCRATCH = ("MCCreate", "MCCreate_abNoScratchReset.cfg", ["Conservation", "PerRecordContribution", "FinalIsSumOfContributions"])
SAB_SUM = ("MCCreate", "MCCreate_abSumRule.cfg", ["PerRecordContribution", "FinalIsSumOfContributions", "FailsWhereExpected", "Conservation"])


def create_check(pid, tier, rule, quick, thorough, sabotage, env=None):
    stages = [("MCCreate", c, "create") for c in (quick if tier == "quick" else thorough)]
    return standard(pid, tier, "model_checking", RULE_COMMON + rule, ASSUME, stages, sabotage=sabotage,
                    replay_env=env)
