"""Single source of truth for MANIFEST.json (written by bin/mkmanifest)."""

HOOK_COMMITS = []   # filled as hook commits are made in /repo

CHECKS = {
    "C03": dict(
        category="model_checking",
        text=("Project.tla: TLC explores all interleavings of one-chromosome down-sampling steps and checks closed form = "
              "composition (confluence), two-step = direct, mass, sign, identity, commutation with marginalization; every "
              "coefficient of every operator in the grid and exact large-size rows are compared with Scs::project and sfs view."),
        design_ref="DESIGN.md section 3 (C03)",
        note=("Grid exhaustive in the bound (quick: 1 axis n<=8, 2 axes n<=3; thorough: 1 axis n<=12, 2 axes n<=5, 3-4 axes n<=2); "
              "one-axis sizes up to 4000 are samples. Trusted: TLC, Q.class (BigInteger), harness f64 evaluation of linear forms."),
        technique="TLA+ down-sampling machine, exact rational operator matrices from TLC, coefficient-wise replay on the implementation",
    ),
    "C04": dict(
        category="model_checking",
        text=("Marginalize.tla: every order of one-axis removals from every shape in the bound; path independence, equality with the "
              "declarative sum, mass, and the as-coded validate/sort/shift operator are TLC invariants; every path and every probe "
              "(valid or invalid axis sequence) is replayed on Spectrum::marginalize and `sfs view -m/-M`."),
        design_ref="DESIGN.md section 3 (C04)",
        note=("Exhaustive in the bound (quick: 1-4 axes lengths 1-3; thorough: 1-5 axes lengths 1-3 plus an unequal-length catalogue "
              "up to length 6). Trusted: TLC, harness evaluation."),
        technique="TLA+ axis-removal machine with diamond property, TLC enumeration of paths, replay on the implementation",
    ),
    "C05": dict(
        category="model_checking",
        text=("Fold.tla: sequences of fold/mirror on symbolic spectra; declarative fold = as-coded fold, mass (fill 0), idempotence, "
              "polarity symmetry and 'lower cells are fill' are TLC invariants in every state; every behaviour is replayed on "
              "Spectrum::fold for all four fills and on `sfs fold`."),
        design_ref="DESIGN.md section 3 (C05)",
        note=("Exhaustive in the bound (quick: 1-3 axes lengths 1-4, 3 ops; thorough: 1-3 axes lengths 1-7 with 3 ops, 1-4 axes "
              "lengths 1-5 with 2 ops). Trusted: TLC, harness mirror/evaluation."),
        technique="TLA+ fold/mirror machine over symbolic linear forms, TLC invariants, behaviour replay on the implementation",
    ),
    "C19": dict(
        category="model_checking",
        text=("ArrayApi.tla models indexing, axis views and the three iterators as state machines; TLC checks "
              "bijection/row-major order, view partition, 'each item once then None forever' and exact len() on "
              "every call history in the bound, and every behaviour is replayed call by call on sfs_core::array."),
        design_ref="DESIGN.md section 3 (C19)",
        note=("Exhaustive inside the bound (quick: 1-4 axes, lengths 1-3; thorough: 1-5 axes lengths 1-3, 1-3 axes "
              "lengths 1-5, 4/5-axis catalogue). Trusted: TLC, CommunityModules Json, harness comparison code."),
        technique="TLA+ state machine per iterator, TLC exhaustive enumeration, spec->impl behaviour replay",
    ),
}

NOT_APPLICABLE = []
