"""Single source of truth for MANIFEST.json (written by bin/mkmanifest)."""

HOOK_COMMITS = []   # filled as hook commits are made in /repo

CHECKS = {
    "C19": dict(
        category="model_checking",
        text=("ArrayApi.tla models indexing, axis views and the three iterators as state machines; TLC checks "
              "bijection/row-major order, view partition, 'each item once then None forever' and exact len() on "
              "every call history in the bound, and every behaviour is replayed call by call on sfs_core::array."),
        design_ref="DESIGN.md section 3 (C19)",
        note=("Exhaustive inside the bound (quick: 1-4 axes, lengths 1-3; thorough: 1-5 axes lengths 1-3, 1-3 axes "
              "lengths 1-5, 4/5-axis catalogue). Trusted: TLC, CommunityModules Json, harness comparison code."),
        technique="TLA+ state machine per iterator, TLC exhaustive enumeration, spec->impl behaviour replay",
    ),
}

NOT_APPLICABLE = []
