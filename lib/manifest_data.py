"""Single source of truth for MANIFEST.json (written by bin/mkmanifest)."""

HOOK_COMMITS = ["af6de69", "d391189", "0c3ce93"]   # hook commits made in /repo

CHECKS = {
    "C17": dict(
        category="model_checking",
        text=("Cli.tla: process outcome machine without a Panic action, with the statistic x shape admissibility table and the "
              "scenario classes (options beyond bounds, degenerate shapes, absurd inputs, contradictory sample lists, field-level "
              "file damage) enumerated by TLC; every scenario is run on the real binary and classified Exit0 / ExitErr+diagnostic "
              "/ panic. CliArgs.tla adds the command-line grammar (option tables, exclusive groups, once-only options, "
              "malformed tokens) and the input-resolution rule; every command line in the bound is run (stdin as terminal via a pty); stat precision lists at and beyond the bounds; every tool into a dead stdout (EPIPE, ENOSPC)."),
        design_ref="DESIGN.md section 3 (C17), section 5 and section 9.7",
        note=("The grids are exhaustive in the bound (model-checked case table). Mutated inputs are exploration: TLC enumerates "
              "damage classes, the bytes are seeded random (3 seeds quick, 25 thorough). Trusted: TLC, harness concretisation."),
        technique="TLA+ outcome machine and admissibility table, TLC enumeration of scenario classes, execution on the binary",
    ),
    "C12": dict(
        category="model_checking",
        text=("BgzfPool.tla model-checks the worker-pool protocol (any completion order, in-order delivery, empty blocks, liveness) "
              "for all interleavings in the bound; the real binary is run on every Create.tla behaviour of a 4-population scenario "
              "set in 12 container/layout variants (incl. BGZF written with foreign header fields and stored blocks) x path/stdin x 6 thread counts x repeats x environments x slow pipes, each "
              "compared with the specification's expected bytes and with the plain-VCF run."),
        design_ref="DESIGN.md section 3 (C12) and section 5",
        note=("Thread schedules of the third-party pool are exhaustive in the model and SAMPLED on the real code; hash-seed "
              "independence is sampled by repeated runs. Trusted: TLC, harness BGZF/BCF encoders."),
        technique="TLA+ worker-pool model checked exhaustively by TLC; Create.tla behaviours replayed across containers, transports, threads and runs",
    ),
    "C06": dict(
        category="model_checking",
        text=("Stats.tla defines the 14 statistics on genotypes (from the statement), on spectra (as computed) and the published "
              "estimators in exact rationals; StatsCheck.tla grows call sets site by site and TLC checks spectrum-level = "
              "genotype-level in every state; all states and large-n estimator cases are replayed through create | stat and the "
              "Spectrum methods; StatCli.tla models the stat output layout (order, separators, header, precision) and is "
              "replayed on `sfs stat`."),
        design_ref="DESIGN.md section 3 (C06)",
        note=("Exhaustive over genotype multisets in the bound (quick: up to 3 sites for <=2 individuals, 2 for 3, 1 for 4; thorough "
              "one more) and the listed n for estimators. Trusted: TLC, Q.class, harness VCF rendering."),
        technique="TLA+ definitions at genotype and spectrum level cross-checked by TLC, behaviours replayed through the real pipeline",
    ),
    "C14": dict(
        category="model_checking",
        text=("StatRel.tla: transformation machine (fold0, swap, scale, set-monomorphic) with the claimed invariances as TLC "
              "invariants over exact statistics, f3/f4 against f2 of marginals; every state replayed on real Spectrum methods and "
              "on fold | stat of the binary."),
        design_ref="DESIGN.md section 3 (C14)",
        note=("Exhaustive over operation sequences (quick 2, thorough 3) from a catalogue of start spectra; not all spectra. "
              "Trusted: TLC, Q.class."),
        technique="TLA+ transformation machine with relational invariants, TLC exhaustive, sequence replay on the implementation",
    ),
    "C13": dict(
        category="model_checking",
        text=("View.tla: the four view operators as once-only actions enabled in the documented order over symbolic spectra; TLC "
              "checks the final state equals the documented pipeline, mask exactness and normalization; every option selection is "
              "run combined and chained on the real binary and compared bit for bit and with the exact expectation; the result is "
              "read back from the destination the model drew (stdout, fresh, stale or in-place file); axis lists are typed in "
              "every order of naming (four-axis spectra) and removed one axis at a time in that order."),
        design_ref="DESIGN.md section 3 (C13)",
        note=("Exhaustive over option selections for shapes in the bound (quick: 1-3 axes lengths 2-3; thorough: 1-4 axes lengths "
              "1-3 and 1-2 axes lengths 2-5). Trusted: TLC, Q.class, harness npy/text parsers."),
        technique="TLA+ option-pipeline machine over symbolic spectra, TLC enumeration, combined-vs-chained execution of the binary",
    ),
    "C18": dict(
        category="model_checking",
        text=("Transport.tla: the consumers' I/O logic (npy reader loop, create-input detection + decoding, writer) against an "
              "environment that owns chunk schedule and failure offset; TLC checks schedule-independence and that failures "
              "surface, on models carrying the real file lengths (small files and files larger than every internal buffer); every schedule is replayed with scheduled readers/writers on "
              "Array::read_npy, the genotype reader (hook) and the spectrum writer, and the writer inside the real process "
              "(stdout / -o PATH) against a sink that fails at the scheduled byte offset."),
        design_ref="DESIGN.md section 3 (C18)",
        note=("First-chunk length exhaustive per file (quick: up to 120), later chunks in {1,2,7,64,rest}, failure at every offset "
              "for three schedules. Needs hook build_from_bufread (cfg sfs_verif). Trusted: TLC, SchedReader/SchedWriter."),
        technique="TLA+ consumer/environment machine over chunk schedules and fault offsets, TLC exhaustive, schedule replay on the implementation",
    ),
    "C07": dict(
        category="model_checking",
        text=("ToolChain.tla: all producer -> transformer* -> consumer chains over formats, precisions and transports with the "
              "artefact in flight as state (format identifiable from its first bytes, exact rounding bound); each chain is run "
              "with real processes, files, pipes and named pipes, onto fresh and stale destinations; plus library round trips, "
              "large artefacts and the 15-digit text/npy/text identity; artefacts travel in two bursts, every text artefact carries exactly the requested decimals, and a sink that loses the last byte or is dead must give an error."),
        design_ref="DESIGN.md section 3 (C07)",
        note=("Chains exhaustive up to the step bound (quick 2, thorough 3) over precisions {0,6,17}; values are a fixed pool, "
              "not all f64. Trusted: TLC, Q.class, harness parsers for both formats."),
        technique="TLA+ tool-chain machine, TLC enumeration of chains, execution of every chain against the real binary",
    ),
    "C15": dict(
        category="model_checking",
        text=("NpyFile.tla: writer layout invariant for every dict length modulo 64 and the exact header bytes; reader decode of "
              "every dtype/byte order/version/header spelling by exact positional arithmetic; both replayed on write_npy/read_npy "
              "and `sfs view`, byte for byte and bit for bit (stdout, -o over an older longer file, dead stdout)."),
        design_ref="DESIGN.md section 3 (C15)",
        note=("Exhaustive over the listed matrix; values per type are boundary patterns (not all bit patterns). numpy's behaviour is "
              "taken from the format document, numpy itself is not run. Trusted: TLC, Q.class, harness file assembly."),
        technique="TLA+ file-layout model, TLC enumeration of the format matrix, exact expected bytes/values replayed on the implementation",
    ),
    "C16": dict(
        category="fault_enumeration",
        text=("Every truncation offset and every extension 1..16 of npy files over versions/itemsizes/shapes, and up to 3 token/"
              "shape edits of text files, enumerated from the NpyFile/TextFile damage models (TLC checks the model reader rejects "
              "them all) and applied to Array::read_npy, the spectrum reader and view/fold/stat; trailing junk of ten content classes; "
              "TextGrammar.tla: the accepted language of the text reader character by character (7056 spelled files). Damage also arrives in a later burst than the intact part, and after one transient interruption of the stream."),
        design_ref="DESIGN.md section 3 (C16)",
        note=("Exhaustive per base file; base files are a bounded catalogue. Trusted: TLC, harness damage application."),
        technique="TLA+ reader/damage model, TLC-checked rejection of every fault position, exhaustive fault application to the implementation",
    ),
    "C01": dict(
        category="model_checking",
        text=('Create.tla without projection: TLC checks the spectrum equals the declarative per-record count for every scenario in the bound and that unselected samples never matter; every behaviour is replayed record by record on site::Reader and end to end on `sfs create` (exact stdout bytes) through the VCF text path and the BCF binary path (own BCF encoder), at six output precisions and all verbosity levels.'),
        design_ref="DESIGN.md sections 2 and 3 (C01)",
        note=('Exhaustive inside the scenario bounds of the listed MCCreate_*.cfg; beyond them (more samples, longer streams) nothing is claimed by this check. Trusted: TLC, Q.class, harness file synthesis and comparison.'),
        technique="TLA+ pipeline state machine (Create.tla) with declarative oracle, TLC exhaustive enumeration, behaviour replay through library and binary",
    ),
    "C02": dict(
        category="model_checking",
        text=('Create.tla with projection: the three apply paths as coded (exact, projected via the odometer, insufficient) against the declarative hypergeometric contribution for every admissible target; replay on library and binary with both CLI spellings and six precisions; CreateLarge.tla adds cohorts of 20-200 chromosomes whose exact hypergeometric rows (BigInteger rationals from TLC) are compared to 1e-9 relative at precision 40. ProjOdometer.tla: the order in which a site\'s weights meet the cells, inductive invariant for targets of any size (Apalache).'),
        design_ref="DESIGN.md sections 2 and 3 (C02)",
        note=('Exhaustive inside the scenario bounds of the listed MCCreate_*.cfg; beyond them (more samples, longer streams) nothing is claimed by this check. Trusted: TLC, Q.class, harness file synthesis and comparison.'),
        technique="TLA+ pipeline state machine (Create.tla) with declarative oracle, TLC exhaustive enumeration, behaviour replay through library and binary",
    ),
    "C08": dict(
        category="model_checking",
        text=('Genotypes.tla + Create.tla: the complete GT alphabet (ploidy 1-3) in selected/unselected columns at every stream position, through the VCF text path and the BCF binary path; classification laws checked by TLC, outcomes replayed.'),
        design_ref="DESIGN.md sections 2 and 3 (C08)",
        note=('Exhaustive inside the scenario bounds of the listed MCCreate_*.cfg; beyond them (more samples, longer streams) nothing is claimed by this check. Trusted: TLC, Q.class, harness file synthesis and comparison.'),
        technique="TLA+ pipeline state machine (Create.tla) with declarative oracle, TLC exhaustive enumeration, behaviour replay through library and binary",
    ),
    "C09": dict(
        category="model_checking",
        text=('SampleMap.tla + Create.tla: population ids by first appearance; all list/label/column permutations in the bound; TLC checks the transposition relation, replay checks the real output for every permutation and both list syntaxes (the sample file also through a named pipe in two bursts); histories of records with faults and all-missing records.'),
        design_ref="DESIGN.md sections 2 and 3 (C09)",
        note=('Exhaustive inside the scenario bounds of the listed MCCreate_*.cfg; beyond them (more samples, longer streams) nothing is claimed by this check. Trusted: TLC, Q.class, harness file synthesis and comparison.'),
        technique="TLA+ pipeline state machine (Create.tla) with declarative oracle, TLC exhaustive enumeration, behaviour replay through library and binary",
    ),
    "C10": dict(
        category="model_checking",
        text=('Create.tla with faults: conservation (mass + skipped = sites) as a state invariant; strict failure at the first skippable record; all-or-nothing output; fault rows at every stream position; replayed on the binary (exit status, empty stdout, diagnostics naming contig:pos, skip summary); Create.tla is also checked to refine CreateCounters.tla (TLC), the counter invariant is proved inductive with Apalache, and event traces recorded from the real create loop (hook, cfg sfs_verif) are validated against CreateTrace.tla.'),
        design_ref="DESIGN.md sections 2 and 3 (C10)",
        note=('Exhaustive inside the scenario bounds of the listed MCCreate_*.cfg; beyond them (more samples, longer streams) nothing is claimed by this check. Trusted: TLC, Q.class, harness file synthesis and comparison.'),
        technique="TLA+ pipeline state machine (Create.tla) with declarative oracle, TLC exhaustive enumeration, behaviour replay through library and binary",
    ),
    "C11": dict(
        category="model_checking",
        text=('Create.tla keeps the per-record accumulators and the projection scratch index as persistent state with explicit resets (as the code does); additivity and order-freedom are TLC invariants over all histories in the bound; sabotage configs without the resets are rejected by TLC; behaviours (including histories with repeated and permuted records and the CreateLarge cohorts) are replayed on the binary and on the library record by record.'),
        design_ref="DESIGN.md sections 2 and 3 (C11)",
        note=('Exhaustive inside the scenario bounds of the listed MCCreate_*.cfg; beyond them (more samples, longer streams) nothing is claimed by this check. Trusted: TLC, Q.class, harness file synthesis and comparison.'),
        technique="TLA+ pipeline state machine (Create.tla) with declarative oracle, TLC exhaustive enumeration, behaviour replay through library and binary",
    ),
    "C03": dict(
        category="model_checking",
        text=("Project.tla: TLC explores all interleavings of one-chromosome down-sampling steps and checks closed form = "
              "composition (confluence), two-step = direct, mass, sign, identity, commutation with marginalization; every "
              "coefficient of every operator in the grid and exact large-size rows are compared with Scs::project and sfs view. Two-population cohorts whose joint denominator leaves the f64 range are checked through create (CreateLarge.tla, factored form)."),
        design_ref="DESIGN.md section 3 (C03)",
        note=("Grid exhaustive in the bound (quick: 1 axis n<=8, 2 axes n<=3; thorough: 1 axis n<=12, 2 axes n<=5, 3-4 axes n<=2); "
              "one-axis sizes up to 4000 are samples. Trusted: TLC, Q.class (BigInteger), harness f64 evaluation of linear forms."),
        technique="TLA+ down-sampling machine, exact rational operator matrices from TLC, coefficient-wise replay on the implementation",
    ),
    "C04": dict(
        category="model_checking",
        text=("Marginalize.tla: every order of one-axis removals from every shape in the bound; path independence, equality with the "
              "declarative sum, mass, and the as-coded validate/sort/shift operator are TLC invariants; every path and every probe "
              "(valid or invalid axis sequence) is replayed on Spectrum::marginalize and `sfs view -m/-M`. SpectrumLarge.tla repeats the joint removal for every proper subset of axes on concrete spectra of 66049-90000 cells (expected entries computed exactly by TLC). The binary's result is also delivered with -o onto an older, longer file and in place (input and destination the same file)."),
        design_ref="DESIGN.md section 3 (C04)",
        note=("Exhaustive in the bound (quick: 1-4 axes lengths 1-3; thorough: 1-5 axes lengths 1-3 plus an unequal-length catalogue "
              "up to length 6). Trusted: TLC, harness evaluation."),
        technique="TLA+ axis-removal machine with diamond property, TLC enumeration of paths, replay on the implementation",
    ),
    "C05": dict(
        category="model_checking",
        text=("Fold.tla: sequences of fold/mirror on symbolic spectra; declarative fold = as-coded fold, mass (fill 0), idempotence, "
              "polarity symmetry and 'lower cells are fill' are TLC invariants in every state; every behaviour is replayed on "
              "Spectrum::fold for all four fills and on `sfs fold`. SpectrumLarge.tla folds concrete spectra of 66049-84000 cells with exact expected entries. The binary's result is also delivered onto an older, longer file and into a dead stdout (must be a diagnosed error)."),
        design_ref="DESIGN.md section 3 (C05)",
        note=("Exhaustive in the bound (quick: 1-3 axes lengths 1-4, 3 ops; thorough: 1-3 axes lengths 1-7 with 3 ops, 1-4 axes "
              "lengths 1-5 with 2 ops). Trusted: TLC, harness mirror/evaluation."),
        technique="TLA+ fold/mirror machine over symbolic linear forms, TLC invariants, behaviour replay on the implementation",
    ),
    "C19": dict(
        category="model_checking",
        text=("ArrayApi.tla models indexing, axis views and the three iterators as state machines; TLC checks "
              "bijection/row-major order, view partition, 'each item once then None forever' and exact len() on "
              "every call history in the bound (next() and nth(n) calls, arrays with zero-length axes included), and every "
              "behaviour is replayed call by call on sfs_core::array. ArrayMem.tla: histories of writes through every mutable "
              "access path from every constructor, the whole array read back through every read path after each step. "
              "Odometer.tla / Odometer3.tla: the view iterator's odometer for lengths and strides of any size, IndInv discharged as "
              "an inductive invariant by Apalache and the same actions run with large concrete constants by TLC and replayed."),
        design_ref="DESIGN.md section 3 (C19)",
        note=("Exhaustive inside the bound (quick: 1-4 axes, lengths 1-3; thorough: 1-5 axes lengths 1-3, 1-3 axes "
              "lengths 1-5, 4/5-axis catalogue). Trusted: TLC, CommunityModules Json, harness comparison code."),
        technique="TLA+ state machine per iterator, TLC exhaustive enumeration, Apalache inductive invariant for unbounded sizes, spec->impl behaviour replay",
    ),
}

NOT_APPLICABLE = []
