//! Shared plumbing: context, outcomes, aggregation, comparison helpers.

use std::collections::{BTreeMap, BTreeSet};

use serde_json::{json, Value};

#[derive(Clone, Debug)]
pub struct Ctx {
    pub sfs_bin: String,
    pub seed: u64,
    pub threads: usize,
    pub work: String,
}

impl Ctx {
    pub fn from_env() -> Self {
        Self {
            sfs_bin: std::env::var("SFS_BIN").unwrap_or_else(|_| "/verif/.work/repo-target/debug/sfs".into()),
            seed: std::env::var("VERIF_SEED").ok().and_then(|s| s.parse().ok()).unwrap_or(1),
            threads: std::env::var("CONFORM_THREADS").ok().and_then(|s| s.parse().ok()).unwrap_or(8),
            work: std::env::var("CONFORM_WORK").unwrap_or_else(|_| "/verif/.work/conform".into()),
        }
    }
}

/// One failed comparison: `fingerprint` identifies the failing scenario class (used to match
/// known findings), `detail` is for the human reading the replay file.
#[derive(Clone, Debug)]
pub struct Failure {
    pub fingerprint: String,
    pub detail: Value,
}

#[derive(Default, Debug)]
pub struct Outcome {
    pub checks: u64,
    pub failures: Vec<Failure>,
    /// key identifying this case as distinct and non-trivial (None = trivial)
    pub nontrivial: Option<String>,
    /// coarse classification counters (which branches of the spec were exercised)
    pub tags: Vec<String>,
}

impl Outcome {
    pub fn check(&mut self, ok: bool, fingerprint: impl FnOnce() -> String, detail: impl FnOnce() -> Value) {
        self.checks += 1;
        if !ok {
            self.failures.push(Failure { fingerprint: fingerprint(), detail: detail() });
        }
    }
    pub fn fail(&mut self, fingerprint: impl Into<String>, detail: Value) {
        self.checks += 1;
        self.failures.push(Failure { fingerprint: fingerprint.into(), detail });
    }
    pub fn tag(&mut self, t: impl Into<String>) {
        self.tags.push(t.into());
    }
}

#[derive(Default, Debug)]
pub struct Agg {
    pub checks: u64,
    pub nontrivial: BTreeSet<String>,
    pub tags: BTreeMap<String, u64>,
    pub failures: Vec<Value>,
    pub failures_total: u64,
    pub samples: Vec<Value>,
}

const MAX_FAILURES_KEPT: usize = 200;

impl Agg {
    pub fn absorb(&mut self, index: usize, case: &Value, out: Outcome) {
        self.checks += out.checks;
        if let Some(k) = out.nontrivial {
            self.nontrivial.insert(k);
        }
        for t in out.tags {
            *self.tags.entry(t).or_insert(0) += 1;
        }
        if self.samples.len() < 3 && index % 97 == 0 {
            self.samples.push(truncate_json(case, 600));
        }
        for f in out.failures {
            self.failures_total += 1;
            // keep at most a few per fingerprint, and a global cap
            let same = self
                .failures
                .iter()
                .filter(|v| v["fingerprint"] == json!(f.fingerprint))
                .count();
            if same < 5 && self.failures.len() < MAX_FAILURES_KEPT {
                self.failures.push(json!({
                    "case_index": index,
                    "fingerprint": f.fingerprint,
                    "detail": f.detail,
                    "case": case,
                }));
            }
        }
    }
}

pub fn truncate_json(v: &Value, max: usize) -> Value {
    let s = v.to_string();
    if s.len() <= max {
        v.clone()
    } else {
        json!({ "truncated": format!("{}...", &s[..max]) })
    }
}

/// Parse a number emitted by the specification: JSON number, decimal string, or exact
/// fraction "n/d" (Q.tla's canonical form).
pub fn qnum(v: &Value) -> f64 {
    match v {
        Value::Number(n) => n.as_f64().unwrap(),
        Value::String(s) => {
            if let Some((n, d)) = s.split_once('/') {
                let n: f64 = n.parse().expect("bad numerator");
                let d: f64 = d.parse().expect("bad denominator");
                n / d
            } else {
                match s.as_str() {
                    "nan" | "NaN" => f64::NAN,
                    "inf" => f64::INFINITY,
                    "-inf" => f64::NEG_INFINITY,
                    _ => s.parse().unwrap_or_else(|_| panic!("bad number {s}")),
                }
            }
        }
        // Q value printed without the override: [n, d]
        Value::Array(a) if a.len() == 2 => a[0].as_f64().unwrap() / a[1].as_f64().unwrap(),
        _ => panic!("not a number: {v}"),
    }
}

pub fn usizes(v: &Value) -> Vec<usize> {
    v.as_array()
        .unwrap_or_else(|| panic!("expected array, got {v}"))
        .iter()
        .map(|x| x.as_u64().unwrap_or_else(|| panic!("expected natural, got {x}")) as usize)
        .collect()
}

pub fn close(a: f64, b: f64, rel: f64) -> bool {
    if a.is_nan() || b.is_nan() {
        return a.is_nan() && b.is_nan();
    }
    if a.is_infinite() || b.is_infinite() {
        return a == b;
    }
    (a - b).abs() <= rel * 1f64.max(a.abs().max(b.abs()))
}

/// Run `f`, turning a panic of the code under test into `Err(message)`.
pub fn guarded<T>(f: impl FnOnce() -> T) -> Result<T, String> {
    std::panic::catch_unwind(std::panic::AssertUnwindSafe(f)).map_err(|e| {
        if let Some(s) = e.downcast_ref::<&str>() {
            s.to_string()
        } else if let Some(s) = e.downcast_ref::<String>() {
            s.clone()
        } else {
            "panic".to_string()
        }
    })
}
