//! Family `view` (C13): option subsets of View.tla executed as one invocation and as a chain of
//! single-option invocations, both compared with the exact expectation.

use rand::{rngs::StdRng, Rng, SeedableRng};
use serde_json::{json, Value};

use crate::{cli, common::*, symbolic::{eval_lf, parse_lf, Symbolic}};

pub fn run(case: &Value, ctx: &Ctx) -> Outcome {
    let mut out = Outcome::default();
    let shape = usizes(&case["shape"]);
    let n: usize = shape.iter().product();
    let marg = usizes(&case["marg"]);
    let proj = usizes(&case["proj"]);
    let mask = case["mask"].as_bool().unwrap();
    let norm = case["norm"].as_bool().unwrap();
    let sym = Symbolic::parse(&case["result"]);
    let divisor = parse_lf(&case["divisor"]);
    let id = case.to_string().bytes().fold(11u64, |h, b| h.wrapping_mul(257).wrapping_add(b as u64));
    let mut rng = StdRng::seed_from_u64(ctx.seed ^ id);
    // magnitude classes of the input: ordinary counts, entries far below machine epsilon (a rescaled spectrum), and large ones;
    // every operator of the pipeline is linear, so nothing but rounding may depend on the magnitude
    let scale: f64 = match id % 3 { 0 => 1.0, 1 => 2f64.powi(-60), _ => 2f64.powi(40) };
    out.tag(format!("scale:{}", if scale == 1.0 { "1" } else if scale < 1.0 { "2^-60" } else { "2^40" }));
    let x: Vec<f64> = (0..n).map(|_| (1.0 + rng.gen::<f64>() * 1e3) * scale).collect();
    let nopts = (!marg.is_empty()) as usize + (!proj.is_empty()) as usize + mask as usize + norm as usize;
    out.nontrivial = Some(format!("{shape:?}/{marg:?}/{proj:?}/{mask}/{norm}"));
    out.tag(format!("options:{nopts}"));

    // an empty divisor under --normalize means everything was masked away: 0/0
    let div = if !norm { 1.0 } else { eval_lf(&divisor, &x, 0.0) };
    let want: Vec<f64> = sym.eval(&x, 0.0).iter().map(|v| v / div).collect();

    // option spellings
    let mut groups: Vec<Vec<String>> = Vec::new();
    let spell = case["spell"].as_str().unwrap_or("any");
    if !marg.is_empty() && spell != "any" {
        // the list exactly as the model typed it (View.tla: opts.named)
        let named = usizes(&case["named"]).iter().map(|a| a.to_string()).collect::<Vec<_>>().join(",");
        out.tag(format!("axis-list:{spell}:{}", if usizes(&case["named"]).windows(2).all(|w| w[0] < w[1]) { "ascending" } else { "other-order" }));
        let flag = match (spell, id % 2) { ("remove", 0) => "-m", ("remove", _) => "--marginalize-remove", (_, 0) => "-M", _ => "--marginalize-keep" };
        groups.push(vec![flag.into(), named]);
    } else if !marg.is_empty() {
        if id % 2 == 0 {
            // the order in which axes are named must not matter: descending for some scenarios
            let mut named = marg.clone();
            if id % 4 == 0 {
                named.reverse();
            }
            groups.push(vec!["-m".into(), named.iter().map(|a| a.to_string()).collect::<Vec<_>>().join(",")]);
        } else {
            let mut keep: Vec<String> = (0..shape.len()).filter(|a| !marg.contains(a)).map(|a| a.to_string()).collect();
            // kept axes may be named in any order as well; the result keeps the order of the spectrum
            if id % 4 == 1 {
                keep.reverse();
            }
            groups.push(vec!["--marginalize-keep".into(), keep.join(",")]);
        }
    }
    if !proj.is_empty() {
        if proj.iter().all(|t| t % 2 == 1) && id % 3 == 0 {
            groups.push(vec!["--project-individuals".into(), proj.iter().map(|t| ((t - 1) / 2).to_string()).collect::<Vec<_>>().join(",")]);
        } else {
            groups.push(vec!["--project-shape".into(), proj.iter().map(|t| t.to_string()).collect::<Vec<_>>().join(",")]);
        }
    }
    if mask {
        groups.push(vec!["--mask-monomorphic".into()]);
    }
    if norm {
        groups.push(vec![if id % 2 == 0 { "-n".into() } else { "--normalize".into() }]);
    }
    let input = cli::write_npy(&shape, &x);

    // one invocation with everything
    let mut args: Vec<String> = vec!["view".into()];
    for g in &groups {
        args.extend(g.iter().cloned());
    }
    args.extend(["-O".into(), "npy".into()]);
    let a: Vec<&str> = args.iter().map(|s| s.as_str()).collect();
    // the destination of the combined invocation (View.tla: dest): stdout, or -o PATH onto a fresh path, onto a file
    // holding an older and LONGER output, or onto the input file itself
    let dest = case["dest"].as_str().unwrap_or("stdout");
    out.tag(format!("dest:{dest}"));
    if dest == "stdout" && id % 5 == 0 {
        // the same invocation with a stdout that is dead from the first byte: a diagnosed error, never success
        let d = cli::sfs_dead_stdout(ctx, &a, &input, if id % 2 == 0 { "enospc" } else { "epipe" });
        out.check(!d.ok() && !d.panicked() && !d.stderr.trim().is_empty(), || "view/combined/dead-sink".into(), || json!({"args": args, "code": d.code, "stderr": d.stderr}));
    }
    let mut combined = if dest == "stdout" {
        cli::sfs(ctx, &a, Some(&input))
    } else {
        let path = format!("{}/files/view_{}_{}.npy", ctx.work, std::process::id(), id);
        std::fs::create_dir_all(format!("{}/files", ctx.work)).expect("mkdir");
        let _ = std::fs::remove_file(&path);
        let mut a_o: Vec<&str> = a.clone();
        a_o.extend(["-o", &path]);
        let r = match dest {
            "fresh" => cli::sfs(ctx, &a_o, Some(&input)),
            "stale" => {
                let mut old = input.clone();
                old.extend_from_slice(&input);
                old.extend_from_slice(b"\n1.000000 2.000000 3.000000\n");
                std::fs::write(&path, &old).expect("write stale");
                cli::sfs(ctx, &a_o, Some(&input))
            }
            _ => {
                std::fs::write(&path, &input).expect("write input");
                a_o.push(&path);
                cli::sfs(ctx, &a_o, None)
            }
        };
        let bytes = std::fs::read(&path).unwrap_or_default();
        let _ = std::fs::remove_file(&path);
        out.check(!r.ok() || r.stdout.is_empty(), || "view/dest/stdout-not-empty-with-o".into(), || json!({"args": args, "stdout_len": r.stdout.len()}));
        cli::Run { code: r.code, stdout: bytes, stderr: r.stderr }
    };
    let _ = &mut combined;
    if !combined.ok() {
        out.fail(format!("view/combined/{}", if combined.panicked() { "panic" } else { "error" }), json!({"args": args, "code": combined.code, "stderr": combined.stderr}));
        return out;
    }
    // the same options one process at a time, npy in between (lossless)
    let mut flight = input.clone();
    for g in &groups {
        let mut a2: Vec<&str> = vec!["view"];
        a2.extend(g.iter().map(|s| s.as_str()));
        a2.extend(["-O", "npy"]);
        let r = cli::sfs(ctx, &a2, Some(&flight));
        if !r.ok() {
            out.fail("view/chained/error", json!({"args": a2, "code": r.code, "stderr": r.stderr}));
            return out;
        }
        flight = r.stdout;
    }
    if groups.is_empty() {
        let r = cli::sfs(ctx, &["view", "-O", "npy"], Some(&flight));
        flight = r.stdout;
    }
    out.check(combined.stdout == flight, || "view/combined-vs-chained/bytes".into(),
        || json!({"args": args, "combined": cli::parse_npy(&combined.stdout).ok().map(|x| x.1), "chained": cli::parse_npy(&flight).ok().map(|x| x.1)}));
    match cli::parse_npy(&combined.stdout) {
        Ok((gs, gv)) => {
            out.check(gs == sym.shape, || "view/combined/shape".into(), || json!({"got": gs, "want": sym.shape}));
            let tol = if proj.is_empty() { 1e-12 } else { 1e-9 };
            // purely relative comparison (an absolute floor would make every tiny entry "close")
            let rel = |g: f64, w: f64| (g.is_nan() && w.is_nan()) || g == w || (g - w).abs() <= tol * g.abs().max(w.abs());
            out.check(gv.len() == want.len() && gv.iter().zip(&want).all(|(g, w)| if scale == 1.0 { close(*g, *w, tol) } else { rel(*g, *w) }), || "view/combined/values".into(),
                || json!({"args": args, "got": gv, "want": want, "applied": case["applied"]}));
            if norm && div != 0.0 {
                out.check(close(gv.iter().sum::<f64>(), 1.0, 1e-12), || "view/normalize/sum".into(), || json!({"sum": gv.iter().sum::<f64>()}));
            }
            if nopts == 0 {
                out.check(gv.iter().zip(&x).all(|(g, v)| g.to_bits() == v.to_bits()), || "view/no-options/identity".into(), || json!({"got": gv}));
            }
        }
        Err(e) => out.fail("view/combined/unparsable", json!({"error": e})),
    }
    // --normalize on an input whose total is within 1e-8 of one (but not one): still rescaled to sum to one
    if norm && nopts == 1 {
        let total: f64 = x.iter().sum();
        let near: Vec<f64> = x.iter().map(|v| v / total * (1.0 + 3e-9)).collect();
        let r = cli::sfs(ctx, &["view", "--normalize", "-O", "npy"], Some(&cli::write_npy(&shape, &near)));
        match (r.ok(), cli::parse_npy(&r.stdout)) {
            (true, Ok((_, gv))) => {
                let t2: f64 = near.iter().sum();
                out.check(gv.iter().zip(&near).all(|(g, v)| close(*g, v / t2, 1e-13) && (g - v / t2).abs() <= 1e-15 + 1e-13 * (v / t2).abs()),
                    || "view/normalize/near-one-input".into(), || json!({"sum_in": t2, "sum_out": gv.iter().sum::<f64>(), "first_in": near[0], "first_out": gv[0]}));
            }
            (_, e) => out.fail("view/normalize/near-one-error", json!({"stderr": r.stderr, "parse": format!("{e:?}")})),
        }
    }
    // text output at two precisions: to the printed precision
    for p in [6usize, 12] {
        if scale < 1.0 && !norm {
            break; // entries of 1e-16 print as zeros at these precisions: nothing to compare
        }
        let mut a3: Vec<String> = args[..args.len() - 2].to_vec();
        a3.extend(["--precision".into(), p.to_string()]);
        let a3r: Vec<&str> = a3.iter().map(|s| s.as_str()).collect();
        let r = cli::sfs(ctx, &a3r, Some(&input));
        match (r.ok(), cli::parse_text(&r.stdout)) {
            (true, Ok((gs, gv))) => {
                let half = 0.5 * 10f64.powi(-(p as i32));
                out.check(gs == sym.shape && gv.len() == want.len() && gv.iter().zip(&want).all(|(g, w)| (g.is_nan() && w.is_nan()) || (g - w).abs() <= half + 1e-9 * w.abs().max(1.0)),
                    || "view/text/values".into(), || json!({"args": a3, "got": gv, "want": want}));
            }
            (_, e) => out.fail("view/text/error", json!({"args": a3, "code": r.code, "stderr": r.stderr, "parse": format!("{e:?}")})),
        }
    }
    out
}
