//! Family `marginalize` (C04): paths of one-axis removals and probe tables of Marginalize.tla.

use rand::{rngs::StdRng, Rng, SeedableRng};
use serde_json::{json, Value};
use sfs_core::{array::Axis, Scs};

use crate::{cli, common::*, symbolic::Symbolic};

fn inputs(n: usize, seed: u64) -> Vec<(&'static str, Vec<f64>, f64)> {
    let mut rng = StdRng::seed_from_u64(seed);
    vec![
        // distinct powers keep every partial sum exact and every cell identifiable
        ("ramp", (0..n).map(|i| (i + 1) as f64).collect(), 0.0),
        ("int", (0..n).map(|_| rng.gen_range(0..1000) as f64).collect(), 0.0),
        ("real", (0..n).map(|_| rng.gen::<f64>() * 1e3).collect(), 1e-12),
        // mostly zeros, some negative: sums that cancel or stay zero must come out as such
        ("sparse", (0..n).map(|i| match i % 4 { 0 => (i + 1) as f64, 2 => -((i / 2) as f64), _ => 0.0 }).collect(), 0.0),
    ]
}

fn cmp(out: &mut Outcome, what: &str, got: Result<(Vec<usize>, Vec<f64>), String>, shape: &[usize], want: &[f64], tol: f64, ctx_detail: Value) {
    match got {
        Ok((gs, gv)) => {
            let ok = gs == shape && gv.len() == want.len() && gv.iter().zip(want).all(|(a, b)| close(*a, *b, tol));
            out.check(ok, || format!("marginalize/{what}/value"), || json!({"got_shape": gs, "got": gv, "want_shape": shape, "want": want, "ctx": ctx_detail}));
        }
        Err(m) => out.fail(format!("marginalize/{what}/error"), json!({"error": m, "ctx": ctx_detail})),
    }
}

fn id_hash(shape: &[usize], orig: &[usize]) -> usize {
    shape.iter().chain(orig.iter()).fold(7usize, |h, x| h.wrapping_mul(31).wrapping_add(*x))
}

pub fn run(case: &Value, ctx: &Ctx) -> Outcome {
    let mut out = Outcome::default();
    let shape = usizes(&case["shape"]);
    let n: usize = shape.iter().product();
    let kind = case["kind"].as_str().unwrap();
    out.tag(format!("kind:{kind}"));
    match kind {
        "path" => {
            let path = case["path"].as_array().unwrap();
            let sym = Symbolic::parse(&case["result"]);
            let cur: Vec<usize> = path.iter().map(|p| p["cur"].as_u64().unwrap() as usize).collect();
            let orig: Vec<usize> = path.iter().map(|p| p["orig"].as_u64().unwrap() as usize).collect();
            if n > 1 {
                out.nontrivial = Some(format!("{shape:?}/{orig:?}"));
            }
            out.tag(format!("removed:{}", path.len()));
            for (name, x, tol) in inputs(n, ctx.seed ^ (n as u64 * 7919)) {
                let want = sym.eval(&x, 0.0);
                let scs = Scs::new(x.clone(), shape.clone()).unwrap();
                // one at a time, in the current numbering of each step
                let chained = guarded(|| {
                    let mut s = scs.clone();
                    for &c in &cur {
                        s = s.marginalize(&[Axis(c)]).map_err(|e| e.to_string())?;
                    }
                    Ok::<_, String>((s.shape().as_ref().to_vec(), s.inner().as_slice().to_vec()))
                })
                .and_then(|r| r);
                cmp(&mut out, "chained", chained, &sym.shape, &want, tol, json!({"input": name, "cur": cur}));
                // jointly, original numbering, in the order the path named them
                let axes: Vec<Axis> = orig.iter().map(|&a| Axis(a)).collect();
                let joint = guarded(|| scs.marginalize(&axes).map(|s| (s.shape().as_ref().to_vec(), s.inner().as_slice().to_vec())).map_err(|e| e.to_string())).and_then(|r| r);
                cmp(&mut out, "joint", joint, &sym.shape, &want, tol, json!({"input": name, "axes": orig}));
            }
            // the binary: -m (remove, as named) and -M (keep the complement), text and npy input
            let (_, x, _) = inputs(n, ctx.seed).remove(1);
            let want = sym.eval(&x, 0.0);
            let remove = orig.iter().map(|a| a.to_string()).collect::<Vec<_>>().join(",");
            let keep: Vec<String> = (0..shape.len()).filter(|a| !orig.contains(a)).map(|a| a.to_string()).collect();
            let text = cli::write_text(&shape, &x, 0);
            let npy = cli::write_npy(&shape, &x);
            let runs: Vec<(&str, Vec<&str>, &[u8])> = vec![
                ("cli-remove-text", vec!["view", "-m", &remove, "--precision", "0"], &text),
                ("cli-remove-npy", vec!["view", "--marginalize-remove", &remove, "--precision", "0"], &npy),
            ];
            for (what, args, input) in runs {
                let r = cli::sfs(ctx, &args, Some(input));
                let got = if r.ok() { cli::parse_text(&r.stdout) } else { Err(format!("exit {:?}: {}", r.code, r.stderr)) };
                cmp(&mut out, what, got, &sym.shape, &want, 0.0, json!({"args": args}));
                // the same marginalization delivered with -o onto a file holding an older, LONGER result (e.g. the less
                // marginalized spectrum of a previous step): the file must hold exactly what stdout got
                if what == "cli-remove-text" && r.ok() {
                    // ... and IN PLACE: the input is given by path and -o names the same file (one step of a chain that keeps
                    // its intermediate result in one file): the input is read before the destination is opened
                    let (ip, _) = cli::sfs_in_place(ctx, &args, input, "marg");
                    out.check(ip.ok() && ip.stdout == r.stdout, || "marginalize/cli/in-place".into(),
                        || json!({"args": args, "code": ip.code, "stderr": ip.stderr, "file_len": ip.stdout.len(), "stdout_len": r.stdout.len()}));
                    let (f, left) = cli::sfs_onto_stale_file(ctx, &args, input, "marg");
                    out.check(f.ok() && !left && f.stdout == r.stdout, || "marginalize/cli/stale-destination".into(),
                        || json!({"args": args, "code": f.code, "stderr": f.stderr, "file_len": f.stdout.len(), "stdout_len": r.stdout.len(), "also_on_stdout": left}));
                }
            }
            // naming a kept axis twice keeps it once
            let mut keep = keep;
            if id_hash(&shape, &orig) % 3 == 0 && !keep.is_empty() {
                keep.insert(0, keep[0].clone());
            }
            let keeps = keep.join(",");
            let r = cli::sfs(ctx, &["view", "-M", &keeps, "-O", "npy"], Some(&text));
            let got = if r.ok() { cli::parse_npy(&r.stdout) } else { Err(format!("exit {:?}: {}", r.code, r.stderr)) };
            cmp(&mut out, "cli-keep", got, &sym.shape, &want, 0.0, json!({"keep": keeps}));
        }
        "table" => {
            let (_, x, _) = inputs(n, ctx.seed).remove(1);
            let scs = Scs::new(x.clone(), shape.clone()).unwrap();
            let text = cli::write_text(&shape, &x, 0);
            out.nontrivial = Some(format!("{shape:?}/table"));
            for (pi, p) in case["probes"].as_array().unwrap().iter().enumerate() {
                let axes = usizes(&p["axes"]);
                let ax: Vec<Axis> = axes.iter().map(|&a| Axis(a)).collect();
                let got = guarded(|| scs.marginalize(&ax).map(|s| (s.shape().as_ref().to_vec(), s.inner().as_slice().to_vec())).map_err(|e| e.to_string()));
                let want_ok = p["r"]["ok"].as_bool().unwrap();
                match (&got, want_ok) {
                    (Err(m), _) => out.fail("marginalize/probe/panic", json!({"axes": axes, "panic": m})),
                    (Ok(Ok((gs, gv))), true) => {
                        let sym = Symbolic::parse(&p["r"]["sp"]);
                        let want = sym.eval(&x, 0.0);
                        out.check(*gs == sym.shape && *gv == want, || "marginalize/probe/value".into(), || json!({"axes": axes, "got": gv, "want": want}));
                    }
                    (Ok(Err(_)), false) => out.check(true, String::new, || Value::Null),
                    (Ok(Ok(_)), false) => out.fail("marginalize/probe/accepted-invalid", json!({"axes": axes, "why": p["r"]["why"]})),
                    (Ok(Err(e)), true) => out.fail("marginalize/probe/rejected-valid", json!({"axes": axes, "error": e})),
                }
                // the binary on a sample of the probes (every third): error => non-zero exit, empty stdout
                if pi % 3 == 0 {
                    let arg = axes.iter().map(|a| a.to_string()).collect::<Vec<_>>().join(",");
                    let r = cli::sfs(ctx, &["view", "-m", &arg], Some(&text));
                    if want_ok {
                        out.check(r.ok(), || "marginalize/probe/cli-rejected-valid".into(), || json!({"axes": axes, "stderr": r.stderr}));
                    } else {
                        out.check(!r.ok() && !r.panicked() && r.stdout.is_empty() && !r.stderr.trim().is_empty(),
                            || "marginalize/probe/cli-invalid".into(),
                            || json!({"axes": axes, "code": r.code, "stderr": r.stderr, "stdout_len": r.stdout.len()}));
                    }
                }
            }
        }
        other => out.fail("marginalize/unknown-kind", json!(other)),
    }
    out
}
