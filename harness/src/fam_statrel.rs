//! Family `statrel` (C14): transformation sequences of StatRel.tla replayed on real Spectrum methods
//! and on `sfs fold --fill zero | sfs stat`.

use serde_json::{json, Value};
use sfs_core::{array::Axis, Scs};

use crate::{cli, common::*, fam_stats::{cli_name, lib_stat, spec_value, stat_close}};

fn swap(shape: &[usize], x: &[f64]) -> (Vec<usize>, Vec<f64>) {
    let (a, b) = (shape[0], shape[1]);
    let mut y = vec![0.0; x.len()];
    for i in 0..a {
        for j in 0..b {
            y[j * a + i] = x[i * b + j];
        }
    }
    (vec![b, a], y)
}

pub fn run(case: &Value, ctx: &Ctx) -> Outcome {
    let mut out = Outcome::default();
    let shape = usizes(&case["shape"]);
    let base: Vec<f64> = case["base"].as_array().unwrap().iter().map(qnum).collect();
    let ops: Vec<&str> = case["ops"].as_array().unwrap().iter().map(|o| o.as_str().unwrap()).collect();
    let fin: Vec<f64> = case["final"].as_array().unwrap().iter().map(qnum).collect();
    let fin_shape = usizes(&case["final_shape"]);
    let factor = qnum(&case["factor"]);
    out.nontrivial = Some(format!("{shape:?}/{}/{ops:?}/{}", case["base"], case["final"]));
    out.tag(format!("dims:{}", shape.len()));
    for o in &ops {
        out.tag(format!("op:{o}"));
    }

    // Replay the operations on the real code.  scale / setmono take their operands from the specification's
    // final spectrum where needed: the sequence is applied step by step and compared at the end.
    let mut cur_shape = shape.clone();
    let mut cur = base.clone();
    let mut folded_by_tool = true;
    // recover operands: walk the ops, using the model's semantics for scale/setmono operands derived from final
    // (operands are not emitted separately; they are identifiable because at most MaxOps are applied)
    // simpler and exact: recompute each candidate operand set and pick the one reproducing `final`.
    let scale_opts = [1.0 / 3.0, 2.0, 1000.0, 1.0 / 10000.0, 1e-20, 1e20];
    let mono_opts = [(0.0, 5.0), (9.0, 0.5), (1e16, 3e15)];
    fn apply(ctx: &Ctx, shape: &mut Vec<usize>, x: &mut Vec<f64>, op: &str, s: f64, m: (f64, f64), folded_by_tool: &mut bool) {
        match op {
            "fold0" => {
                let scs = Scs::new(x.clone(), shape.clone()).unwrap();
                *x = scs.fold().into_spectrum(0.0).inner().as_slice().to_vec();
                let _ = (ctx, folded_by_tool);
            }
            "swap" => {
                let (s2, y) = swap(shape, x);
                *shape = s2;
                *x = y;
            }
            "scale" => x.iter_mut().for_each(|v| *v *= s),
            "setmono" => {
                let n = x.len();
                x[0] = m.0;
                x[n - 1] = m.1;
            }
            _ => unreachable!(),
        }
    }
    // enumerate operand choices (at most 3 ops => at most 27 combinations) and keep the one matching the model's final
    let mut found = false;
    'search: for si in 0..scale_opts.len().pow(ops.len() as u32) {
        for mi in 0..mono_opts.len().pow(ops.len() as u32) {
            let mut sh = shape.clone();
            let mut x = base.clone();
            let (mut s_idx, mut m_idx) = (si, mi);
            for op in &ops {
                let s = scale_opts[s_idx % scale_opts.len()];
                let m = mono_opts[m_idx % mono_opts.len()];
                s_idx /= scale_opts.len();
                m_idx /= mono_opts.len();
                apply(ctx, &mut sh, &mut x, op, s, m, &mut folded_by_tool);
            }
            if sh == fin_shape && x.len() == fin.len() && x.iter().zip(&fin).all(|(a, b)| (a - b).abs() <= 1e-12 * a.abs().max(b.abs())) {
                cur_shape = sh;
                cur = x;
                found = true;
                break 'search;
            }
        }
    }
    out.check(found, || "statrel/replay/final-spectrum".into(), || json!({"ops": ops, "want": fin}));
    if !found {
        return out;
    }

    let base_scs = Scs::new(base.clone(), shape.clone()).unwrap();
    let cur_scs = Scs::new(cur.clone(), cur_shape.clone()).unwrap();
    let stats = case["stats"].as_object().unwrap();
    // (1) every admissible statistic of the final spectrum equals the specification's value
    for (name, v) in stats {
        let want = spec_value(v);
        match guarded(|| lib_stat(name, &cur_scs)) {
            Ok(Ok(got)) => out.check(stat_close(got, want, 1e-9), || format!("statrel/value/{name}"), || json!({"got": got.to_string(), "want": want.to_string(), "ops": ops})),
            other => out.fail(format!("statrel/value-error/{name}"), json!(format!("{other:?}"))),
        }
    }
    // (1b) the binary, ALL admissible statistics in one invocation (ratio statistics first): requesting one
    // statistic must not change the value of another
    {
        let mut names: Vec<&String> = stats.keys().collect();
        names.sort_by_key(|k| !matches!(k.as_str(), "f2" | "f3" | "f4" | "fst"));
        let joined = names.iter().map(|k| cli_name(k)).collect::<Vec<_>>().join(",");
        // seventeen decimals cannot carry entries of size 1e-20: those spectra travel as npy (lossless)
        let tiny = cur.iter().any(|v| *v != 0.0 && v.abs() < 1e-3);
        let text = if tiny { cli::write_npy(&cur_shape, &cur) } else { cli::write_text(&cur_shape, &cur, 17) };
        let r = cli::sfs(ctx, &["stat", "-s", &joined, "--precision", "12"], Some(&text));
        if r.ok() {
            for (k, tok) in names.iter().zip(String::from_utf8_lossy(&r.stdout).trim().split(',')) {
                let want = spec_value(&stats[k.as_str()]);
                let got: f64 = tok.parse().unwrap_or(f64::NAN);
                let ok = if want.is_finite() { (got - want).abs() <= 0.5e-12 + 1e-9 * want.abs().max(1.0) } else { stat_close(got, want, 0.0) };
                out.check(ok, || format!("statrel/cli-together/{k}"), || json!({"stats": joined, "got": tok, "want": want.to_string()}));
            }
        } else {
            out.fail("statrel/cli-together/error", json!({"stats": joined, "code": r.code, "stderr": r.stderr}));
        }
    }
    // (2) the relation itself, on the real values: unchanged or scaled by the factor
    let scaled: Vec<&str> = case["scaled"].as_array().unwrap().iter().map(|s| s.as_str().unwrap()).collect();
    for c in case["claims"].as_array().unwrap() {
        let name = c.as_str().unwrap();
        if let (Ok(Ok(b)), Ok(Ok(f))) = (guarded(|| lib_stat(name, &base_scs)), guarded(|| lib_stat(name, &cur_scs))) {
            // a statistic that scales with the spectrum is compared after dividing the factor out again (the factors go down to
            // 1e-20: a tolerance with an absolute floor would compare nothing there)
            let (f, want) = if scaled.contains(&name) { (f / factor, b) } else { (f, b) };
            out.check(stat_close(f, want, 1e-9), || format!("statrel/relation/{name}"), || json!({"base": b.to_string(), "final": f.to_string(), "factor": factor, "ops": ops}));
        }
    }
    // (2b) non-finite monomorphic entries (a masked spectrum): the statistics that never look at the corners are unchanged
    if let Some(list) = case["mono_specials"].as_array() {
        for (u, v) in [(f64::NAN, f64::NAN), (f64::INFINITY, f64::INFINITY), (f64::NEG_INFINITY, 3.0), (f64::NAN, 9.0)] {
            let mut x = cur.clone();
            let n = x.len();
            if n < 2 { continue; }
            x[0] = u;
            x[n - 1] = v;
            let masked = Scs::new(x, cur_shape.clone()).unwrap();
            for c in list {
                let name = c.as_str().unwrap();
                if let (Ok(Ok(plain)), Ok(m)) = (guarded(|| lib_stat(name, &cur_scs)), guarded(|| lib_stat(name, &masked))) {
                    match m {
                        Ok(got) => out.check(stat_close(got, plain, 1e-12), || format!("statrel/non-finite-monomorphic/{name}"), || json!({"corners": [u.to_string(), v.to_string()], "got": got.to_string(), "want": plain.to_string(), "ops": ops})),
                        Err(e) => out.fail(format!("statrel/non-finite-monomorphic-error/{name}"), json!({"error": e})),
                    }
                }
            }
        }
    }
    // (3) f3 / f4 from the f2 of the two-population marginals, on real marginals
    if let Some(m) = case["marginal_f2"].as_object() {
        let d = cur_shape.len();
        let f2 = |a: usize, b: usize| -> f64 {
            let rm: Vec<Axis> = (0..d).filter(|x| *x != a && *x != b).map(Axis).collect();
            cur_scs.marginalize(&rm).unwrap().into_normalized().f2().unwrap()
        };
        for (k, v) in m {
            // keys are printed as TLA+ tuples <<a, b>>
            let nums: Vec<usize> = k.chars().filter(|c| c.is_ascii_digit()).map(|c| c.to_digit(10).unwrap() as usize).collect();
            if nums.len() == 2 {
                let got = f2(nums[0] - 1, nums[1] - 1);
                out.check(stat_close(got, spec_value(v), 1e-9), || "statrel/marginal-f2".into(), || json!({"pair": k, "got": got.to_string()}));
            }
        }
        if d == 3 {
            let want = (f2(0, 1) + f2(0, 2) - f2(1, 2)) / 2.0;
            let got = cur_scs.clone().into_normalized().f3().unwrap();
            out.check(stat_close(got, want, 1e-9), || "statrel/f3-combination".into(), || json!({"got": got.to_string(), "want": want.to_string()}));
        }
        if d == 4 {
            let want = (f2(0, 3) + f2(1, 2) - f2(0, 2) - f2(1, 3)) / 2.0;
            let got = cur_scs.clone().into_normalized().f4().unwrap();
            out.check(stat_close(got, want, 1e-9), || "statrel/f4-combination".into(), || json!({"got": got.to_string(), "want": want.to_string()}));
        }
    }
    // (4) through the binary: fold --fill zero | stat must agree with stat on the unfolded spectrum
    if ops.is_empty() {
        let text = cli::write_text(&shape, &base, 17);
        let fold_inv = ["pi", "theta", "s", "d_tajima", "pi_xy", "f2", "f3", "f4", "fst", "king", "r0", "r1"];
        let names: Vec<&str> = stats.keys().filter(|k| fold_inv.contains(&k.as_str())).map(|k| cli_name(k)).collect();
        if !names.is_empty() {
            let joined = names.join(",");
            let direct = cli::sfs(ctx, &["stat", "-s", &joined, "--precision", "12"], Some(&text));
            let folded = cli::sfs(ctx, &["fold", "--fill", "zero", "--precision", "17"], Some(&text));
            let after = cli::sfs(ctx, &["stat", "-s", &joined, "--precision", "12"], Some(&folded.stdout));
            let parse = |r: &cli::Run| -> Vec<f64> { String::from_utf8_lossy(&r.stdout).trim().split(',').map(|t| t.parse().unwrap_or(f64::NAN)).collect() };
            let (a, b) = (parse(&direct), parse(&after));
            out.check(direct.ok() && folded.ok() && after.ok() && a.len() == b.len() && a.iter().zip(&b).all(|(x, y)| stat_close(*x, *y, 1e-9)),
                || "statrel/cli-fold-invariance".into(), || json!({"stats": joined, "direct": String::from_utf8_lossy(&direct.stdout), "after_fold": String::from_utf8_lossy(&after.stdout), "stderr": after.stderr}));
        }
    }
    out
}
