//! Family `text` (C16 text part): damaged plain-text spectrum files from TextFile.tla.

use serde_json::{json, Value};
use sfs_core::{spectrum::io::read, Input};

use crate::{cli, common::*};

pub fn run(case: &Value, ctx: &Ctx) -> Outcome {
    let mut out = Outcome::default();
    let shape0 = usizes(&case["shape0"]);
    let shape = usizes(&case["shape"]);
    let accept = case["accept"].as_bool().unwrap();
    let faults = case["faults"].as_array().unwrap();
    let n0: usize = shape0.iter().product();
    // the original values, then the token edits in order; a token is (value, on a line of its own)
    let mut toks: Vec<(f64, bool)> = (0..n0).map(|i| ((i + 1) as f64 + 0.5, false)).collect();
    let id = case.to_string().bytes().fold(17u64, |h, b| h.wrapping_mul(31).wrapping_add(b as u64));
    for (k, f) in faults.iter().enumerate() {
        match f["f"].as_str().unwrap() {
            "drop" => {
                if !toks.is_empty() {
                    let at = (id as usize + k) % toks.len();
                    toks.remove(at);
                }
            }
            "add" => {
                let inline = toks.iter().filter(|t| !t.1).count();
                let at = (id as usize + k) % (inline + 1);
                toks.insert(at, (99.25 + k as f64, false));
            }
            "addline" => toks.push((77.5 + k as f64, true)),
            _ => {}
        }
    }
    assert_eq!(toks.len() as u64, case["ntok"].as_u64().unwrap());
    let inline: Vec<f64> = toks.iter().filter(|t| !t.1).map(|t| t.0).collect();
    let mut text = cli::write_text(&shape, &inline, 6);
    for v in toks.iter().filter(|t| t.1) {
        text.extend_from_slice(format!("{:.6}\n", v.0).as_bytes());
    }
    let tokens: Vec<f64> = inline.iter().copied().chain(toks.iter().filter(|t| t.1).map(|t| t.0)).collect();
    out.nontrivial = Some(format!("{shape0:?}/{}", case["faults"]));
    out.tag(format!("accept:{accept}"));
    out.tag(format!("faults:{}", faults.len()));

    let path = cli::scratch(ctx, &format!("text_{id:016x}.sfs"), &text);
    let lib = guarded(|| {
        read::Builder::default()
            .set_input(Input::Path(path.clone().into()))
            .read()
            .map(|s| (s.shape().as_ref().to_vec(), s.inner().as_slice().to_vec()))
            .map_err(|e| e.to_string())
    });
    match (&lib, accept) {
        (Err(p), _) => out.fail("text/damage/lib-panic", json!({"panic": p, "text": String::from_utf8_lossy(&text)})),
        (Ok(Ok((s, v))), true) => out.check(*s == shape && *v == tokens, || "text/damage/lib-value".into(), || json!({"got_shape": s, "want_shape": shape})),
        (Ok(Err(e)), true) => out.fail("text/damage/lib-rejected-valid", json!({"error": e, "text": String::from_utf8_lossy(&text)})),
        (Ok(Ok((s, v))), false) => out.fail("text/damage/lib-accepted-mismatch", json!({"read_shape": s, "read_values": v.len(), "text": String::from_utf8_lossy(&text)})),
        (Ok(Err(_)), false) => out.check(true, String::new, || Value::Null),
    }
    let _ = std::fs::remove_file(&path);

    let subs: [Vec<&str>; 3] = [vec!["view"], vec!["fold"], vec!["stat", "-s", "sum"]];
    if accept {
        let r = cli::sfs(ctx, &["view"], Some(&text));
        out.check(r.ok() && cli::parse_text(&r.stdout).map(|(s, v)| s == shape && v == tokens).unwrap_or(false),
            || format!("text/damage/cli-view-valid{}", if r.panicked() { "-panic" } else { "" }),
            || json!({"code": r.code, "stderr": r.stderr, "stdout": String::from_utf8_lossy(&r.stdout), "text": String::from_utf8_lossy(&text)}));
    } else {
        for args in &subs {
            let r = cli::sfs(ctx, args, Some(&text));
            out.check(!r.ok() && !r.panicked() && r.stdout.is_empty() && !r.stderr.trim().is_empty(),
                || format!("text/damage/cli-{}{}", args[0], if r.panicked() { "-panic" } else if r.ok() { "-accepted" } else { "" }),
                || json!({"code": r.code, "stderr": r.stderr, "stdout": String::from_utf8_lossy(&r.stdout), "text": String::from_utf8_lossy(&text)}));
        }
        // the same damaged file arriving in two bursts, the second one holding its last token (a reader that stops at the
        // first short read may have seen a well-formed file by then)
        let body_end = text.iter().rposition(|b| !b.is_ascii_whitespace()).map_or(0, |p| p + 1);
        if let Some(cut) = text[..body_end].iter().rposition(|b| b.is_ascii_whitespace()) {
            let args = &subs[(id % 3) as usize];
            let r = cli::sfs_delayed(ctx, args, &text, cut + 1);
            out.check(!r.ok() && !r.panicked() && r.stdout.is_empty(),
                || format!("text/damage/cli-late-{}{}", args[0], if r.panicked() { "-panic" } else if r.ok() { "-accepted" } else { "" }),
                || json!({"code": r.code, "stderr": r.stderr, "stdout": String::from_utf8_lossy(&r.stdout), "text": String::from_utf8_lossy(&text), "first_burst": cut + 1}));
        }
    }
    out
}
