//! Readers and writers whose schedule the harness owns (C18): the first underlying call moves at
//! most `first` bytes, later calls at most `later` (0 = everything), and the call that would start at
//! byte offset `fail_at` fails.  Every underlying call is logged.

use std::io::{self, BufRead, Read, Write};
use std::sync::{Arc, Mutex};

#[derive(Clone, Debug, Default)]
pub struct Log {
    pub calls: Vec<(String, usize)>,
}

pub struct SchedReader {
    data: Vec<u8>,
    pos: usize,      // bytes handed to the buffer so far
    buf_start: usize, // start of the unconsumed buffer
    first: usize,
    later: usize,
    fail_at: Option<usize>,
    ncalls: usize,
    eintr_done: bool,
    eintr_at: Option<usize>,
    pub log: Arc<Mutex<Log>>,
}

impl SchedReader {
    pub fn new(data: Vec<u8>, first: usize, later: usize, fail_at: Option<usize>) -> Self {
        Self { data, pos: 0, buf_start: 0, first, later, fail_at, ncalls: 0, eintr_done: false, eintr_at: None, log: Arc::new(Mutex::new(Log::default())) }
    }
    /// One transient interruption (EINTR) when the stream stands at byte offset `at`; the call before it ends exactly there.
    pub fn with_eintr(mut self, at: usize) -> Self {
        self.eintr_at = Some(at);
        self
    }
    fn underlying(&mut self) -> io::Result<usize> {
        if let Some(f) = self.fail_at {
            if self.pos >= f {
                self.log.lock().unwrap().calls.push(("fail".into(), self.pos));
                // the kind of failure must not matter: rotate through kinds a caller might be tempted to special-case
                let kind = [io::ErrorKind::Other, io::ErrorKind::UnexpectedEof, io::ErrorKind::BrokenPipe, io::ErrorKind::InvalidData, io::ErrorKind::TimedOut][f % 5];
                return Err(io::Error::new(kind, "injected read failure"));
            }
        }
        if let Some(at) = self.eintr_at {
            if self.pos == at && !self.eintr_done {
                self.eintr_done = true;
                self.log.lock().unwrap().calls.push(("eintr".into(), self.pos));
                return Err(io::Error::new(io::ErrorKind::Interrupted, "injected EINTR"));
            }
        }
        let remaining = self.data.len() - self.pos;
        let want = if self.ncalls == 0 { self.first } else if self.later == 0 { remaining } else { self.later };
        let upto = match self.fail_at {
            Some(f) if f > self.pos => f - self.pos,
            _ => remaining,
        };
        let upto = match self.eintr_at { Some(at) if at > self.pos && !self.eintr_done => upto.min(at - self.pos), _ => upto };
        let n = want.min(remaining).min(upto);
        self.ncalls += 1;
        self.pos += n;
        self.log.lock().unwrap().calls.push(("read".into(), n));
        Ok(n)
    }
}

impl Read for SchedReader {
    fn read(&mut self, out: &mut [u8]) -> io::Result<usize> {
        let avail = self.fill_buf()?;
        let n = avail.len().min(out.len());
        out[..n].copy_from_slice(&avail[..n]);
        self.consume(n);
        Ok(n)
    }
}

impl BufRead for SchedReader {
    fn fill_buf(&mut self) -> io::Result<&[u8]> {
        if self.buf_start == self.pos {
            self.underlying()?;
        }
        Ok(&self.data[self.buf_start..self.pos])
    }
    fn consume(&mut self, amt: usize) {
        self.buf_start = (self.buf_start + amt).min(self.pos);
    }
}

pub struct SchedWriter {
    pub accepted: Vec<u8>,
    first: usize,
    later: usize,
    fail_at: Option<usize>,
    ncalls: usize,
    pub calls: Vec<(String, usize)>,
}

impl SchedWriter {
    pub fn new(first: usize, later: usize, fail_at: Option<usize>) -> Self {
        Self { accepted: Vec::new(), first, later, fail_at, ncalls: 0, calls: Vec::new() }
    }
}

impl Write for SchedWriter {
    fn write(&mut self, buf: &[u8]) -> io::Result<usize> {
        if buf.is_empty() {
            return Ok(0);
        }
        if let Some(f) = self.fail_at {
            if self.accepted.len() >= f {
                self.calls.push(("fail".into(), self.accepted.len()));
                return Err(io::Error::new(io::ErrorKind::Other, "injected write failure"));
            }
        }
        let cap = if self.ncalls == 0 { self.first } else if self.later == 0 { buf.len() } else { self.later };
        let upto = match self.fail_at {
            Some(f) if f > self.accepted.len() => f - self.accepted.len(),
            _ => buf.len(),
        };
        let n = cap.min(buf.len()).min(upto).max(1);
        self.ncalls += 1;
        self.accepted.extend_from_slice(&buf[..n]);
        self.calls.push(("write".into(), n));
        Ok(n)
    }
    fn flush(&mut self) -> io::Result<()> {
        Ok(())
    }
}
