//! Family `cliargs` (CliArgs.tla): command lines built from the option tables, and the rule that decides where the
//! input comes from (stdin may be a terminal: a pseudo-terminal is opened for those runs).

use std::os::fd::{FromRawFd, OwnedFd};
use std::process::{Command, Stdio};

use serde_json::{json, Value};

use crate::{cli, common::*, gen};

fn value_of(tool: &str, name: &str, k: usize, work: &str, id: u64) -> Option<String> {
    let pick = |a: &str, b: &str| Some(if k % 2 == 0 { a.to_string() } else { b.to_string() });
    match (tool, name) {
        (_, "quiet") | (_, "verbose") | (_, "strict") | (_, "mask-monomorphic") | (_, "normalize") | (_, "header") => None,
        (_, "precision") => pick("3", "4"),
        (_, "threads") => pick("2", "3"),
        ("create", "project-individuals") => pick("1", "1"),
        ("create", "project-shape") => pick("3", "3"),
        ("create", "samples") => pick("a=p,b=p", "c=p"),
        ("create", "samples-file") => Some(format!("{work}/files/cliargs_samples.txt")),
        (_, "output") => Some(format!("{work}/files/cliargs_out_{}_{id}_{k}", std::process::id())),
        (_, "output-format") => pick("npy", "text"),
        (_, "marginalize-remove") | (_, "marginalize-keep") => pick("0", "2"),
        ("view", "project-individuals") => pick("1,1,1", "1"),
        ("view", "project-shape") => pick("2,2,2", "2"),
        (_, "fill") => pick("zero", "nan"),
        (_, "delimiter") => pick(";", ":"),
        (_, "statistics") => pick("sum", "s"),
        other => panic!("no value for {other:?}"),
    }
}

fn small_vcf() -> Vec<u8> {
    let cols: Vec<String> = ["a", "b", "c"].iter().map(|s| s.to_string()).collect();
    let rows = [["0/1", "1/1", "0/0"], ["0/0", "0|1", "0/1"], ["1/1", "0/1", "0/0"]];
    let recs: Vec<gen::Rec> = rows.iter().enumerate().map(|(i, r)| gen::Rec {
        contig: "chr1".into(), pos: (i + 1) as u64, bad: false, nogt: false, short_alt: false,
        gt: cols.iter().cloned().zip(r.iter().map(|s| s.to_string())).collect(),
    }).collect();
    gen::vcf_text(&cols, &recs, false).into_bytes()
}

pub fn run(case: &Value, ctx: &Ctx) -> Outcome {
    let mut out = Outcome::default();
    let tool = case["tool"].as_str().unwrap();
    let line = case["line"].as_array().cloned().unwrap_or_default();
    let want = case["outcome"].as_str().unwrap();
    let with_path = case["path"].as_bool().unwrap();
    let stdin_kind = case["stdin"].as_str().unwrap();
    let allow = case["allow"].as_bool().unwrap();
    let id = case.to_string().bytes().fold(7u64, |h, b| h.wrapping_mul(131).wrapping_add(b as u64));
    out.tag(format!("tool:{tool}"));
    out.tag(format!("want:{want}"));
    out.nontrivial = Some(case.to_string());

    std::fs::create_dir_all(format!("{}/files", ctx.work)).expect("mkdir");
    let samples = format!("{}/files/cliargs_samples.txt", ctx.work);
    if !std::path::Path::new(&samples).exists() {
        let _ = std::fs::write(&samples, "a\tp\nb\tp\nc\tq\n");
    }
    let data: Vec<u8> = if tool == "create" { small_vcf() } else { cli::write_text(&[2, 3, 2], &(0..12).map(|i| (i * 3 % 7 + 1) as f64).collect::<Vec<_>>(), 6) };
    let input = cli::scratch(ctx, &format!("cliargs_in_{tool}_{}_{id}", std::process::id()), &data);

    let mut argv: Vec<String> = vec![tool.to_string()];
    if with_path {
        argv.push(input.clone());
    }
    let mut counts = std::collections::HashMap::<String, usize>::new();
    let mut tail: Vec<String> = Vec::new();
    let mut outputs: Vec<String> = Vec::new();
    for o in &line {
        if o["k"] == "opt" {
            let name = o["name"].as_str().unwrap();
            let k = *counts.get(name).unwrap_or(&0);
            counts.insert(name.to_string(), k + 1);
            argv.push(format!("--{name}"));
            if let Some(v) = value_of(tool, name, k, &ctx.work, id) {
                if name == "output" {
                    outputs.push(v.clone());
                }
                argv.push(v);
            }
        } else {
            match o["why"].as_str().unwrap() {
                "unknown_option" => argv.push("--bogus".into()),
                "invalid_value" => argv.extend(["--precision".to_string(), "x".to_string()]),
                "extra_positional" => argv.push("extra.txt".into()),
                _ => tail.push("--precision".into()), // missing value: must be the last token
            }
        }
    }
    argv.extend(tail);

    let mut cmd = Command::new(&ctx.sfs_bin);
    cmd.args(&argv).env_remove("RUST_BACKTRACE").env_remove("RUST_LOG").stdout(Stdio::piped()).stderr(Stdio::piped());
    if allow {
        cmd.env("SFS_ALLOW_STDIN", "1");
    } else {
        cmd.env_remove("SFS_ALLOW_STDIN");
    }
    let mut master: Option<OwnedFd> = None;
    match stdin_kind {
        "tty" => {
            let (mut m, mut s) = (0i32, 0i32);
            let rc = unsafe { libc::openpty(&mut m, &mut s, std::ptr::null_mut(), std::ptr::null_mut(), std::ptr::null_mut()) };
            if rc != 0 {
                out.fail("cliargs/tool/openpty-failed", json!({"errno": std::io::Error::last_os_error().to_string()}));
                return out;
            }
            // the child must not inherit the master side, or the hang-up below never happens
            unsafe { libc::fcntl(m, libc::F_SETFD, libc::FD_CLOEXEC); libc::fcntl(s, libc::F_SETFD, libc::FD_CLOEXEC); }
            master = Some(unsafe { OwnedFd::from_raw_fd(m) });
            cmd.stdin(Stdio::from(unsafe { OwnedFd::from_raw_fd(s) }));
        }
        "data" => { cmd.stdin(Stdio::piped()); }
        _ => { cmd.stdin(Stdio::null()); }
    }
    let mut child = match cmd.spawn() {
        Ok(c) => c,
        Err(e) => { out.fail("cliargs/tool/spawn", json!(e.to_string())); return out; }
    };
    if stdin_kind == "data" {
        let mut si = child.stdin.take().unwrap();
        let bytes = data.clone();
        std::thread::spawn(move || { use std::io::Write; let _ = si.write_all(&bytes); });
    }
    // a terminal nobody types at: the master side stays open while the tool runs (a hung-up terminal no longer counts as
    // one); a tool that does read from it finds end-of-input markers (^D on an empty line) queued up
    if let Some(m) = &master {
        use std::os::fd::AsRawFd;
        let eofs = [4u8; 32];
        unsafe { libc::write(m.as_raw_fd(), eofs.as_ptr() as *const libc::c_void, eofs.len()); }
        let start = std::time::Instant::now();
        while child.try_wait().ok().flatten().is_none() && start.elapsed().as_secs() < 20 {
            std::thread::sleep(std::time::Duration::from_millis(5));
        }
    }
    drop(master);
    let o = child.wait_with_output().expect("wait");
    for p in outputs {
        let _ = std::fs::remove_file(p);
    }
    let _ = std::fs::remove_file(&input);
    let r = cli::Run { code: o.status.code(), stdout: o.stdout, stderr: String::from_utf8_lossy(&o.stderr).into_owned() };
    let d = || json!({"argv": argv, "stdin": stdin_kind, "allow": allow, "code": r.code, "stdout_len": r.stdout.len(), "stderr": r.stderr.chars().take(400).collect::<String>(), "want": want});
    if r.panicked() {
        out.fail(format!("cliargs/panic/{tool}"), d());
        return out;
    }
    // What the grammar and the input rule LOOK like (which combinations are refused, with which status) is as-built behaviour,
    // not one of the listed properties: a tool that accepts more, or refuses more, is not alarmed about - it is recorded as a
    // tag.  What every outcome must satisfy (C17): no panic (checked above), a non-zero exit comes with a diagnostic, and a
    // refused command line writes nothing to stdout.
    out.check(r.ok() || !r.stderr.trim().is_empty(), || format!("cliargs/silent-failure/{tool}"), d);
    out.check(r.ok() || r.stdout.is_empty(), || format!("cliargs/output-despite-failure/{tool}"), d);
    let as_model = match want {
        "usage" => r.code == Some(2),
        "run" => matches!(r.code, Some(0) | Some(1)),
        "err_both" | "err_none" | "err_empty" => r.code == Some(1),
        _ => false,
    };
    if !as_model {
        out.tag(format!("differs-from-as-built-model:{want}"));
    }
    match want {
        "run" => {
            if line.iter().all(|o| o["k"] == "opt" && o["name"] == "statistics") && with_path && (allow || stdin_kind == "tty") {
                // a file is named, nothing else is asked, stdin is a terminal (or the test is off): the run itself must succeed
                out.check(r.ok() && !r.stdout.is_empty(), || format!("cliargs/plain-run-failed/{tool}"), d);
            }
        }
        "usage" | "err_both" | "err_none" | "err_empty" => {}
        other => out.fail("cliargs/unknown-outcome", json!(other)),
    }
    out
}
