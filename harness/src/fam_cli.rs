//! Family `cli` (C17): scenarios of Cli.tla concretised and run on the binary.  The only verdicts are
//! "no panic", "non-zero exit has a diagnostic", and the admissibility table for `stat`.

use rand::{rngs::StdRng, Rng, SeedableRng};
use serde_json::{json, Value};

use crate::{cli, common::*, fam_stats::cli_name, gen};

fn verdict(out: &mut Outcome, label: String, r: &cli::Run, expect: &str, detail: Value) {
    let d = |r: &cli::Run| json!({"scenario": detail, "code": r.code, "stderr": r.stderr.chars().take(600).collect::<String>(), "stdout_len": r.stdout.len()});
    if r.panicked() {
        // name the crate when the panic is raised inside a dependency rather than in sfs itself
        let loc = r.stderr.lines().find(|l| l.contains("panicked at")).unwrap_or("");
        let place = if let Some(i) = loc.find("noodles-") {
            let rest = &loc[i..];
            let krate: String = rest.chars().take_while(|c| *c != '/').collect();
            let file = rest.split('/').last().unwrap_or("").split(':').next().unwrap_or("");
            format!("/in-dependency:{}:{}", krate.trim_end_matches(|c: char| c.is_ascii_digit() || c == '.' || c == '-'), file)
        } else {
            String::new()
        };
        out.fail(format!("cli/panic/{label}{place}"), d(r));
        return;
    }
    out.check(r.ok() || !r.stderr.trim().is_empty(), || format!("cli/silent-failure/{label}"), || d(r));
    match expect {
        "ok" => out.check(r.ok(), || format!("cli/should-succeed/{label}"), || d(r)),
        "err" => out.check(!r.ok(), || format!("cli/should-fail/{label}"), || d(r)),
        _ => out.check(true, String::new, || Value::Null),
    }
}

fn text_of(shape: &[usize]) -> Vec<u8> {
    let n: usize = shape.iter().product();
    cli::write_text(shape, &(0..n).map(|i| (i % 7 + 1) as f64).collect::<Vec<_>>(), 0)
}

fn small_vcf() -> (Vec<String>, Vec<gen::Rec>) {
    let cols: Vec<String> = ["a", "b", "c"].iter().map(|s| s.to_string()).collect();
    let rows = [["0/1", "1/1", "0/0"], ["0/0", "0|1", "./."], ["1/1", "0/1", "1/2"]];
    let recs = rows.iter().enumerate().map(|(i, r)| gen::Rec {
        contig: "chr1".into(), pos: (i + 1) as u64, bad: false, nogt: false, short_alt: false,
        gt: cols.iter().cloned().zip(r.iter().map(|s| s.to_string())).collect(),
    }).collect();
    (cols, recs)
}

fn find(h: &[u8], n: &[u8]) -> Option<usize> {
    h.windows(n.len()).position(|w| w == n)
}

/// byte range of a field in the base file of a format
fn field_range(format: &str, field: &str, b: &[u8]) -> (usize, usize) {
    let line_start = |k: usize| -> usize { b.iter().enumerate().filter(|(_, c)| **c == b'\n').map(|(i, _)| i + 1).nth(k.wrapping_sub(1)).unwrap_or(0) };
    match format {
        "vcf" => {
            let nlines = b.iter().filter(|c| **c == b'\n').count();
            let rec = line_start(nlines - 2); // second to last record line
            let rec_end = rec + b[rec..].iter().position(|c| *c == b'\n').unwrap();
            let cols: Vec<usize> = std::iter::once(rec).chain(b[rec..rec_end].iter().enumerate().filter(|(_, c)| **c == b'\t').map(|(i, _)| rec + i + 1)).collect();
            let col = |k: usize| (cols[k], if k + 1 < cols.len() { cols[k + 1] - 1 } else { rec_end });
            match field {
                "fileformat" => (0, b.iter().position(|c| *c == b'\n').unwrap()),
                "header_line" => { let s = find(b, b"#CHROM").unwrap(); (s, s + b[s..].iter().position(|c| *c == b'\n').unwrap()) }
                "chrom" => col(0), "pos" => col(1), "ref_alt" => (cols[3], cols[5] - 1), "format" => col(8), "gt" => col(9),
                _ => (rec_end, rec_end + 1),
            }
        }
        "bcf" => {
            let l_text = u32::from_le_bytes(b[5..9].try_into().unwrap()) as usize;
            let r0 = 9 + l_text;
            let l_shared = u32::from_le_bytes(b[r0..r0 + 4].try_into().unwrap()) as usize;
            let indiv = r0 + 8 + l_shared;
            match field {
                "magic" => (0, 5), "l_text" => (5, 9), "header_text" => (9 + l_text / 2, 9 + l_text / 2 + 12),
                "l_shared" => (r0, r0 + 4), "l_indiv" => (r0 + 4, r0 + 8), "chrom" => (r0 + 8, r0 + 12), "pos" => (r0 + 12, r0 + 16),
                "n_sample" => (r0 + 28, r0 + 32), "gt_type" => (indiv, indiv + 3), _ => (indiv + 3, indiv + 6),
            }
        }
        "npy" => {
            let hl = u16::from_le_bytes([b[8], b[9]]) as usize;
            let f = |n: &[u8]| { let s = find(b, n).unwrap(); (s, s + n.len()) };
            match field {
                "magic" => (0, 6), "version" => (6, 8), "header_len" => (8, 10), "descr" => f(b"'<f8'"), "fortran" => f(b"False"),
                "shape" => f(b"(3, 2)"), "padding" => (10 + hl - 6, 10 + hl), _ => (10 + hl + 4, 10 + hl + 12),
            }
        }
        _ => {
            let nl = b.iter().position(|c| *c == b'\n').unwrap();
            match field {
                "prefix" => (0, 8), "shape" => (8, nl - 1), "newline" => (nl, nl + 1), _ => (nl + 3, nl + 9),
            }
        }
    }
}

fn damage(b: &[u8], range: (usize, usize), how: &str, binary: bool, capped: bool, rng: &mut StdRng) -> Vec<u8> {
    let (a, e) = (range.0.min(b.len()), range.1.min(b.len()).max(range.0.min(b.len())));
    let mut v = b.to_vec();
    match how {
        "bitflip" => {
            if e > a {
                let i = rng.gen_range(a..e);
                v[i] ^= 1 << rng.gen_range(0..8);
            }
        }
        "delete" => { v.drain(a..e); }
        "duplicate" => { let c = v[a..e].to_vec(); v.splice(a..a, c); }
        // binary length fields: large but below 16 MiB, so that the reader's allocation stays cheap (with
        // 0xffffffff the tool allocates 4 GiB, fails with a diagnostic, and takes many seconds doing so)
        "huge_number" => { let r: Vec<u8> = if binary { let mut x = vec![0xff; e - a]; if capped { if let Some(l) = x.last_mut() { *l = 0 } } x } else { b"99999999999999999999999".to_vec() }; v.splice(a..e, r); }
        "negative" => { let r: Vec<u8> = if binary { let mut x = vec![0xff; e - a]; if let Some(l) = x.last_mut() { *l = if capped { 0 } else { 0x80 } } if capped { x[0] = 0x80 } x } else { b"-1".to_vec() }; v.splice(a..e, r); }
        "nul" => { for x in &mut v[a..e] { *x = 0; } }
        _ => v.truncate(a + rng.gen_range(0..=(e - a))),
    }
    v
}

pub fn run(case: &Value, ctx: &Ctx) -> Outcome {
    let mut out = Outcome::default();
    let sc = &case["sc"];
    let expect = case["expect"].as_str().unwrap();
    let kind = sc["kind"].as_str().unwrap();
    out.tag(format!("kind:{kind}"));
    out.nontrivial = Some(sc.to_string());
    match kind {
        "stat" => {
            let shape = usizes(&sc["shape"]);
            let stat = sc["stat"].as_str().unwrap();
            let r = cli::sfs(ctx, &["stat", "-s", cli_name(stat)], Some(&text_of(&shape)));
            verdict(&mut out, format!("stat/{stat}"), &r, expect, sc.clone());
            if r.ok() {
                out.check(String::from_utf8_lossy(&r.stdout).trim().parse::<f64>().is_ok(), || format!("cli/stat-output/{stat}"), || json!({"stdout": String::from_utf8_lossy(&r.stdout), "sc": sc}));
            }
            // and on an npy rendering of the same spectrum
            let n: usize = shape.iter().product();
            let npy = cli::write_npy(&shape, &(0..n).map(|i| (i % 5) as f64).collect::<Vec<_>>());
            let r2 = cli::sfs(ctx, &["stat", "-s", cli_name(stat), "-H", "-d", ";"], Some(&npy));
            verdict(&mut out, format!("stat/{stat}"), &r2, expect, sc.clone());
        }
        "view" => {
            let shape = usizes(&sc["shape"]);
            let opt = sc["o"]["opt"].as_str().unwrap();
            let val = sc["o"]["val"].as_str().unwrap();
            let flag = format!("--{opt}");
            let mut args: Vec<&str> = vec!["view"];
            if opt != "none" {
                args.push(&flag);
                if !val.is_empty() {
                    args.push(val);
                }
            }
            for fmt in ["text", "npy"] {
                let mut a = args.clone();
                a.extend(["-O", fmt]);
                let r = cli::sfs(ctx, &a, Some(&text_of(&shape)));
                verdict(&mut out, format!("view/{opt}"), &r, expect, sc.clone());
            }
        }
        "fold" => {
            let shape = usizes(&sc["shape"]);
            let r = cli::sfs(ctx, &["fold", "--fill", sc["fill"].as_str().unwrap(), "--precision", sc["precision"].as_str().unwrap()], Some(&text_of(&shape)));
            verdict(&mut out, "fold".into(), &r, expect, sc.clone());
        }
        "input" => {
            let name = sc["input"].as_str().unwrap();
            let npy_head = |dict: &str| -> Vec<u8> { crate::fam_npy::assemble(1, &format!("{dict:<117}\n"), &[0u8; 16]) };
            let bytes: Vec<u8> = match name {
                "empty" => vec![],
                "1byte" => b"#".to_vec(),
                "5bytes" => b"#SHAP".to_vec(),
                "shape_only" => b"#SHAPE".to_vec(),
                "magic_only" => b"\x93NUMPY".to_vec(),
                "magic_v1_nolen" => b"\x93NUMPY\x01\x00".to_vec(),
                "text_no_values" => b"#SHAPE=<3>\n".to_vec(),
                "text_shape_empty" => b"#SHAPE=<>\n1 2 3\n".to_vec(),
                "text_shape_zero" => b"#SHAPE=<0>\n\n".to_vec(),
                "text_shape_overflow" => b"#SHAPE=<4294967296/4294967296/4294967296>\n1 2 3\n".to_vec(),
                "text_shape_zero_overflow" => b"#SHAPE=<0/4294967296/4294967296>\n\n".to_vec(),
                "npy_shape_zero_overflow" => crate::fam_npy::assemble(1, &format!("{:<117}\n", "{'descr': '<f8', 'fortran_order': False, 'shape': (0, 4294967296, 4294967296), }"), &[]),
                "text_shape_negative" => b"#SHAPE=<-3>\n1 2 3\n".to_vec(),
                "text_huge_value" => b"#SHAPE=<3>\n1e999 -1e999 1e-999\n".to_vec(),
                "text_nan_values" => b"#SHAPE=<3>\nNaN inf -inf\n".to_vec(),
                "npy_shape_overflow" => npy_head("{'descr': '<f8', 'fortran_order': False, 'shape': (4294967296, 4294967296, 4294967296), }"),
                // numpy writes 'shape': () for a 0-dimensional (scalar) array, with exactly one value
                "npy_shape_scalar" => crate::fam_npy::assemble(1, &format!("{:<117}\n", "{'descr': '<f8', 'fortran_order': False, 'shape': (), }"), &3.5f64.to_le_bytes()),
                "npy_shape_scalar_novalue" => crate::fam_npy::assemble(1, &format!("{:<117}\n", "{'descr': '<f8', 'fortran_order': False, 'shape': (), }"), &[]),
                // valid UTF-8 whose "digits" are not ASCII: numeric to Unicode, not to a parser of decimal integers
                "text_shape_arabic_digit" => "#SHAPE=<\u{0663}>\n1 2 3\n".as_bytes().to_vec(),
                "text_shape_superscript" => "#SHAPE=<3\u{00b2}>\n1 2 3\n".as_bytes().to_vec(),
                "text_shape_fullwidth" => "#SHAPE=<\u{ff13}>\n1 2 3\n".as_bytes().to_vec(),
                "text_shape_half_after" => "#SHAPE=<2/\u{00bd}>\n1 2\n".as_bytes().to_vec(),
                "text_value_fullwidth" => "#SHAPE=<3>\n1 \u{ff12} 3\n".as_bytes().to_vec(),
                "text_shape_scalar_like" => b"#SHAPE=<1>\n3.5\n".to_vec(),
                "npy_shape_zero" => crate::fam_npy::assemble(1, &format!("{:<117}\n", "{'descr': '<f8', 'fortran_order': False, 'shape': (0,), }"), &[]),
                "npy_header_len_huge" => { let mut b = b"\x93NUMPY\x02\x00".to_vec(); b.extend_from_slice(&0xffff_fff0u32.to_le_bytes()); b.extend_from_slice(b"{'descr': '<f8'}"); b }
                "npy_v9" => { let mut b = npy_head("{'descr': '<f8', 'fortran_order': False, 'shape': (2,), }"); b[6] = 9; b }
                "npy_dict_garbage" => npy_head("{'descr': '<f8', 'fortran_order': False, 'shape': (2,), 'extra': {{{{ }"),
                "npy_shape_nonint" => npy_head("{'descr': '<f8', 'fortran_order': False, 'shape': (2.5,), }"),
                "binary_garbage" => (0..300u32).map(|i| (i.wrapping_mul(2654435761) >> 13) as u8).collect(),
                _ => b"\xef\xbb\xbf#SHAPE=<2>\n1 2\n".to_vec(),
            };
            let tool = sc["tool"].as_str().unwrap();
            let args: Vec<&str> = if tool == "stat" { vec!["stat", "-s", "sum"] } else if let Some(st) = tool.strip_prefix("stat-") { vec!["stat", "-s", st] } else { vec![tool] };
            let r = cli::sfs(ctx, &args, Some(&bytes));
            verdict(&mut out, format!("input/{name}"), &r, expect, sc.clone());
        }
        "samples" => {
            let (cols, recs) = small_vcf();
            let vcf = gen::vcf_text(&cols, &recs, false);
            let name = sc["list"].as_str().unwrap();
            let (arg, file): (Option<&str>, Option<&str>) = match name {
                "dup_same_label" => (Some("a=A,a=A,b=B"), None),
                "dup_diff_label" => (Some("a=A,a=B"), None),
                "dup_unnamed_named" => (Some("a,a=B,b"), None),
                "dup_new_then_new" => (Some("a=A,a=B,b=C"), None),
                "dup_new_then_old" => (Some("a=A,a=B,b=B,c=A"), None),
                "dup_unnamed_then_new" => (Some("a,a=B,b=C,c"), None),
                "dup_twice_then_new" => (None, Some("a\tA\na\tB\na\tC\nb\tD\nc\tE\n")),
                "unknown" => (Some("a=A,zzz=B"), None),
                "empty_arg" => (Some(""), None),
                "empty_file" => (None, Some("")),
                "only_equals" => (Some("="), None),
                "trailing_comma" => (Some("a=A,b=B,"), None),
                "label_only" => (Some("=A"), None),
                "tabs_in_arg" => (Some("a\tA,b\tB"), None),
                "blank_lines_file" => (None, Some("a\tA\n\n\nb\tB\n\n")),
                _ => (None, Some("a\tA\nb\tB\nc\tA\na\tB\nb\tA\nc\tB\n")),
            };
            let mut args: Vec<String> = vec!["create".into()];
            let mut tmp = None;
            if let Some(a) = arg {
                args.extend(["-s".into(), a.into()]);
            }
            if let Some(f) = file {
                let p = cli::scratch(ctx, &format!("cli_samples_{name}_{}.txt", sc["project"]), f.as_bytes());
                args.extend(["-S".into(), p.clone()]);
                tmp = Some(p);
            }
            if sc["project"].as_bool().unwrap() {
                args.extend(["--project-shape".into(), "2,2".into()]);
            }
            let a: Vec<&str> = args.iter().map(|s| s.as_str()).collect();
            let r = cli::sfs(ctx, &a, Some(vcf.as_bytes()));
            verdict(&mut out, format!("samples/{name}"), &r, expect, sc.clone());
            if let Some(p) = tmp {
                let _ = std::fs::remove_file(p);
            }
        }
        "mutate" => {
            let format = sc["format"].as_str().unwrap();
            let field = sc["field"].as_str().unwrap();
            let how = sc["damage"].as_str().unwrap();
            let (cols, recs) = small_vcf();
            let base: Vec<u8> = match format {
                "vcf" => gen::vcf_text(&cols, &recs, false).into_bytes(),
                "bcf" => gen::own_bcf(&cols, &recs),
                "npy" => cli::write_npy(&[3, 2], &[1.0, 2.0, 3.0, 4.0, 5.0, 6.0]),
                _ => cli::write_text(&[3, 2], &[1.0, 2.0, 3.0, 4.0, 5.0, 6.0], 6),
            };
            let range = field_range(format, field, &base);
            let seeds = std::env::var("CLI_MUTATION_SEEDS").ok().and_then(|s| s.parse().ok()).unwrap_or(3u64);
            for k in 0..seeds {
                let mut rng = StdRng::seed_from_u64(ctx.seed.wrapping_mul(1000003).wrapping_add(k) ^ sc.to_string().len() as u64);
                let mut bytes = damage(&base, range, how, format == "bcf" || (format == "npy" && !matches!(field, "descr" | "fortran" | "shape" | "padding")), field.starts_with("l_") || field == "n_sample" || field == "header_len", &mut rng);
                if format == "bcf" && field == "gt_type" && how == "bitflip" && k == 0 {
                    // pinned instance of the known finding: GT declared as a float vector (type nibble 5)
                    bytes = base.clone();
                    bytes[range.0 + 2] = 0x25;
                }
                if format == "bcf" && k % 2 == 1 {
                    bytes = gen::bgzf_chunks(&bytes, 100);
                }
                let runs: Vec<Vec<&str>> = match format {
                    "vcf" | "bcf" => vec![vec!["create"], vec!["create", "-s", "a=A,b=B", "--project-shape", "2,2"]],
                    _ => vec![vec!["view"], vec!["fold"], vec!["stat", "-s", "sum,f2"]],
                };
                for args in runs {
                    let r = cli::sfs(ctx, &args, Some(&bytes));
                    verdict(&mut out, format!("mutate/{format}/{field}/{how}"), &r, expect, json!({"sc": sc, "seed": k, "args": args}));
                }
            }
        }
        "shapeop" => {
            // an EMPTY spectrum (some axis has length zero) written with the shape text of the scenario
            let shape = sc["shape"].as_str().unwrap();
            let bytes: Vec<u8> = if sc["format"] == "text" {
                format!("#SHAPE=<{shape}>\n\n").into_bytes()
            } else {
                let tuple = shape.split('/').map(|x| format!("{x},")).collect::<Vec<_>>().join(" ");
                let dict = format!("{{'descr': '<f8', 'fortran_order': False, 'shape': ({tuple}), }}");
                let pad = (64 - (10 + dict.len() + 1) % 64) % 64;
                crate::fam_npy::assemble(1, &format!("{dict}{}\n", " ".repeat(pad)), &[])
            };
            let op: Vec<String> = sc["op"].as_array().unwrap().iter().map(|x| x.as_str().unwrap().to_string()).collect();
            let args: Vec<&str> = op.iter().map(|x| x.as_str()).collect();
            let r = cli::sfs(ctx, &args, Some(&bytes));
            verdict(&mut out, format!("shapeop/{}/{}", shape, op.join(" ")), &r, expect, sc.clone());
        }
        "deadsink" => {
            let tool = sc["tool"].as_str().unwrap();
            let sink = sc["sink"].as_str().unwrap();
            let (args, input): (Vec<&str>, Vec<u8>) = match tool {
                "view" => (vec!["view"], text_of(&[3, 4])),
                "view-npy" => (vec!["view", "-O", "npy"], text_of(&[3, 4])),
                "fold" => (vec!["fold"], text_of(&[3, 4])),
                "stat" => (vec!["stat", "-s", "sum"], text_of(&[3, 4])),
                "stat-header" => (vec!["stat", "-s", "sum", "-H"], text_of(&[3, 4])),
                "stat-header-many" => (vec!["stat", "-H", "-s", "pi,theta,s,sum", "--precision", "3,4,5,6"], text_of(&[7])),
                _ => {
                    let (cols, recs) = small_vcf();
                    (vec!["create"], gen::vcf_text(&cols, &recs, false).into_bytes())
                }
            };
            let r = cli::sfs_dead_stdout(ctx, &args, &input, sink);
            verdict(&mut out, format!("deadsink/{tool}/{sink}"), &r, expect, sc.clone());
        }
        "statprec" => {
            let stats = sc["stats"].as_str().unwrap();
            let precs = sc["precs"].as_str().unwrap();
            let prec_arg = format!("--precision={precs}");
            let mut args: Vec<&str> = vec!["stat", "-s", stats, &prec_arg];
            if sc["header"].as_bool().unwrap_or(false) {
                args.push("-H");
            }
            let r = cli::sfs(ctx, &args, Some(&text_of(&[7])));
            verdict(&mut out, format!("statprec/{stats}/{precs}"), &r, expect, sc.clone());
        }
        "manypops" => {
            let n = sc["n"].as_u64().unwrap() as usize;
            let cols: Vec<String> = (0..n).map(|i| format!("s{i}")).collect();
            let rec = gen::Rec { contig: "chr1".into(), pos: 1, bad: false, nogt: false, short_alt: false, gt: cols.iter().map(|c| (c.clone(), "0/1".to_string())).collect() };
            let vcf = gen::vcf_text(&cols, &[rec], false);
            let list = (0..n).map(|i| format!("s{i}=p{i}")).collect::<Vec<_>>().join(",");
            let mut args: Vec<String> = vec!["create".into(), "-s".into(), list];
            match sc["project"].as_str().unwrap() {
                "same" => args.extend(["-p".into(), vec!["1"; n].join(",")]),
                // two populations keep their individual, all others are projected to none: 3 x 3 x 1 x .. x 1 cells
                "tiny" => args.extend(["--project-shape".into(), (0..n).map(|i| if i < 2 { "3" } else { "1" }).collect::<Vec<_>>().join(",")]),
                _ => {}
            }
            let a: Vec<&str> = args.iter().map(|s| s.as_str()).collect();
            let r = cli::sfs(ctx, &a, Some(vcf.as_bytes()));
            verdict(&mut out, format!("manypops/{n}/{}", sc["project"].as_str().unwrap()), &r, expect, sc.clone());
            if sc["project"] == "tiny" && r.ok() {
                // every sample is 0/1: the site lands in the middle cell of the 3 x 3 spectrum
                let ok = cli::parse_text(&r.stdout).map(|(s, v)| s.iter().product::<usize>() == 9 && v.len() == 9 && (v[4] - 1.0).abs() < 1e-9 && (v.iter().sum::<f64>() - 1.0).abs() < 1e-9).unwrap_or(false);
                out.check(ok, || "cli/manypops/tiny-projection-values".into(), || json!({"stdout": String::from_utf8_lossy(&r.stdout).chars().take(200).collect::<String>()}));
            }
        }
        "npyjunk" => {
            let k = sc["k"].as_u64().unwrap() as usize;
            let version = sc["version"].as_u64().unwrap() as u8;
            // 131 bytes of dict text, "\u{3c0}" (two bytes) starting at byte k, then the newline
            let dict = format!("{{'descr': [('{}\u{3c0}{}', '<f8')], 'fortran_order': False, 'shape': (2,), }}", "a".repeat(k.saturating_sub(13)), "b".repeat(130usize.saturating_sub(k)));
            let bytes = crate::fam_npy::assemble(version, &format!("{dict}\n"), &[0u8; 16]);
            for tool in [vec!["view"], vec!["stat", "-s", "sum"]] {
                let r = cli::sfs(ctx, &tool, Some(&bytes));
                verdict(&mut out, format!("npyjunk/v{version}/{}", tool[0]), &r, expect, sc.clone());
            }
        }
        "badaxes" => {
            let shape = sc["shape"].as_str().unwrap();
            let dims: Vec<usize> = shape.split('/').map(|x| x.parse().unwrap()).collect();
            let n: usize = dims.iter().product();
            let vals: Vec<f64> = (0..n).map(|i| (i % 5) as f64 + 1.0).collect();
            let bytes = if sc["format"] == "text" { cli::write_text(&dims, &vals, 6) } else { cli::write_npy(&dims, &vals) };
            let op: Vec<String> = sc["op"].as_array().unwrap().iter().map(|x| x.as_str().unwrap().to_string()).collect();
            let mut args: Vec<&str> = vec!["view"];
            args.extend(op.iter().map(|x| x.as_str()));
            let r = cli::sfs(ctx, &args, Some(&bytes));
            verdict(&mut out, format!("badaxes/{shape}/{}", op.join(" ")), &r, expect, sc.clone());
            out.check(r.ok() || r.stdout.is_empty(), || "cli/badaxes/partial-output".into(), || json!({"sc": sc}));
        }
        "threads" => {
            let (cols, recs) = small_vcf();
            let vcf = gen::vcf_text(&cols, &recs, false).into_bytes();
            let container = sc["container"].as_str().unwrap();
            let bytes = match container {
                "vcf" => vcf.clone(),
                "vcf.gz" => gen::bgzf_lines(&vcf, false),
                "bcf" => gen::bgzf_chunks(&gen::own_bcf(&cols, &recs), 200),
                _ => gen::own_bcf(&cols, &recs),
            };
            let t = sc["t"].as_str().unwrap();
            let reference = cli::sfs(ctx, &["create", "-t", "1"], Some(&vcf));
            let r = cli::sfs(ctx, &["create", "-t", t], Some(&bytes));
            verdict(&mut out, format!("threads/{container}/{t}"), &r, expect, sc.clone());
            if r.ok() && reference.ok() {
                out.check(r.stdout == reference.stdout, || format!("cli/threads-output/{container}/{t}"),
                    || json!({"sc": sc, "got": String::from_utf8_lossy(&r.stdout), "want": String::from_utf8_lossy(&reference.stdout)}));
            }
        }
        other => out.fail("cli/unknown-kind", json!(other)),
    }
    out
}
