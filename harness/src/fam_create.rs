//! Family `create` (C01 C02 C08 C09 C10 C11): behaviours of Create.tla replayed (i) through the
//! library, record by record, and (ii) through the `sfs create` binary, end to end.

use serde_json::{json, Value};
use sfs_core::{
    array::Shape,
    input::{
        genotype,
        sample::Population,
        site::{
            self,
            reader::builder::{Project, Samples},
            Site,
        },
        ReadStatus, Sample,
    },
    Input, Scs,
};

use crate::{cli, common::*, gen, symbolic::parse_lf};

fn hash(s: &str) -> u64 {
    s.bytes().fold(0xcbf29ce484222325u64, |h, b| (h ^ b as u64).wrapping_mul(0x100000001b3))
}

pub fn run(case: &Value, ctx: &Ctx) -> Outcome {
    let mut out = Outcome::default();
    let cols: Vec<String> = case["cols"].as_array().unwrap().iter().map(|c| c.as_str().unwrap().to_string()).collect();
    let recs = gen::recs_from_json(&case["recs"]);
    let all = case["all"].as_bool().unwrap();
    let list: Vec<(String, Option<String>)> = case["list"]
        .as_array()
        .unwrap()
        .iter()
        .map(|e| {
            let p = e["p"].as_str().unwrap();
            (e["s"].as_str().unwrap().to_string(), if p == "-" { None } else { Some(p.to_string()) })
        })
        .collect();
    let proj = usizes(&case["proj"]);
    let strict = case["strict"].as_bool().unwrap();
    let h = case["h"].as_array().unwrap();
    let outcome = case["outcome"].as_str().unwrap();
    let diag = &case["diag"];
    let key = case.to_string();
    let id = hash(&key);
    let extra = id % 3 == 0;
    // one call set in five: the header does not declare GT (what a reader does with the records may not depend on that)
    let text = if id % 5 == 3 { gen::vcf_text_undeclared_gt(&cols, &recs, extra) } else { gen::vcf_text(&cols, &recs, extra) };
    let path = cli::scratch(ctx, &format!("create_{id:016x}.vcf"), text.as_bytes());

    out.tag(format!("outcome:{outcome}/{}", diag["kind"].as_str().unwrap_or("")));
    out.tag(format!("proj:{}", if proj.is_empty() { "none" } else { "yes" }));
    let kinds: Vec<&str> = h.iter().map(|e| e["kind"].as_str().unwrap()).collect();
    if !recs.is_empty() {
        out.nontrivial = Some(format!("{id:016x}"));
    }
    for k in &kinds {
        out.tag(format!("site:{k}"));
    }

    // ------------------------------------------------------------------ (i) library
    let lib = guarded(|| {
        let greader = genotype::reader::Builder::default()
            .set_input(Input::Path(path.clone().into()))
            .build()
            .map_err(|e| format!("open: {e}"))?;
        let samples = if all {
            None
        } else {
            Some(Samples::List(
                list.iter().map(|(s, p)| (Sample::from(s.as_str()), Population::from(p.as_deref()))).collect(),
            ))
        };
        let project = if proj.is_empty() { None } else { Some(Project::Shape(Shape(proj.clone()))) };
        let mut reader = site::reader::Builder::default()
            .set_samples(samples)
            .set_project(project)
            .build(greader)
            .map_err(|e| format!("build: {e}"))?;
        let mut scs = reader.create_zero_scs();
        let shape = scs.shape().as_ref().to_vec();
        let mut events: Vec<Value> = Vec::new();
        loop {
            let status = reader.read_site();
            let ev = match status {
                ReadStatus::Read(Site::Standard(counts)) => {
                    let mut one = Scs::from_zeros(shape.clone());
                    let c: Vec<usize> = AsRef::<[usize]>::as_ref(counts).to_vec();
                    match one.inner_mut().get_mut(&c) {
                        Some(x) => *x += 1.0,
                        None => return Err(format!("counts {c:?} outside shape {shape:?}")),
                    }
                    json!({"kind": "standard", "contrib": one.inner().as_slice()})
                }
                ReadStatus::Read(Site::Projected(p)) => {
                    let mut one = Scs::from_zeros(shape.clone());
                    p.add_unchecked(&mut one);
                    json!({"kind": "projected", "contrib": one.inner().as_slice()})
                }
                ReadStatus::Read(Site::InsufficientData) => json!({"kind": "insufficient"}),
                ReadStatus::Error(e) => {
                    events.push(json!({"kind": "error", "msg": e.to_string(), "site": format!("{}:{}", reader.current_contig(), reader.current_position())}));
                    break;
                }
                ReadStatus::Done => break,
            };
            let mut ev = ev;
            ev["site"] = json!(format!("{}:{}", reader.current_contig(), reader.current_position()));
            ev["skips"] = json!(reader
                .current_skipped_samples()
                .map(|(s, why)| json!({"s": s.as_ref(), "why": match why {
                    sfs_core::input::genotype::Skipped::Missing => "missing",
                    sfs_core::input::genotype::Skipped::Multiallelic => "multiallelic",
                }}))
                .collect::<Vec<_>>());
            if let Some(c) = ev.get("contrib") {
                let c: Vec<f64> = c.as_array().unwrap().iter().map(|x| x.as_f64().unwrap_or(f64::NAN)).collect();
                for (dst, add) in scs.inner_mut().iter_mut().zip(c) {
                    *dst += add;
                }
            }
            events.push(ev);
        }
        Ok::<_, String>((shape, events, scs.inner().as_slice().to_vec()))
    });

    let want_build_fail = outcome == "failed" && diag["kind"] == "build";
    match lib {
        Err(p) => out.fail("create/lib/panic", json!({"panic": p})),
        Ok(Err(e)) => {
            out.check(want_build_fail, || "create/lib/unexpected-build-error".into(), || json!({"error": e, "expected": diag}));
        }
        Ok(Ok((shape, events, total))) => {
            if want_build_fail {
                out.fail("create/lib/build-accepted", json!({"expected": diag}));
            } else {
                out.check(shape == usizes(&case["shape"]), || "create/lib/shape".into(), || json!({"got": shape, "want": case["shape"]}));
                // record by record
                for (r, e) in h.iter().enumerate() {
                    let kind = e["kind"].as_str().unwrap();
                    let Some(got) = events.get(r) else {
                        // a strict failure stops the tool's loop, not the library's reader
                        out.fail("create/lib/missing-event", json!({"record": r + 1, "expected": kind}));
                        break;
                    };
                    let gk = got["kind"].as_str().unwrap();
                    let want_kind = match kind {
                        "strict" => "insufficient",
                        "ploidy" | "bad" => "error",
                        k => k,
                    };
                    out.check(gk == want_kind, || format!("create/lib/site-kind/{want_kind}-as-{gk}"), || json!({"record": r + 1, "got": got, "expected": e}));
                    if gk != want_kind {
                        break;
                    }
                    if kind == "ploidy" {
                        let site = format!("{}:{}", recs[r].contig, recs[r].pos);
                        out.check(got["site"] == json!(site), || "create/lib/error-site".into(), || json!({"got": got, "want": site}));
                    }
                    if matches!(kind, "standard" | "projected") {
                        let n = total.len();
                        let mut want = vec![0.0; n];
                        for (q, c) in parse_lf(&e["contrib"]) {
                            want[q - 1] = c;
                        }
                        let gv: Vec<f64> = got["contrib"].as_array().unwrap().iter().map(|x| x.as_f64().unwrap_or(f64::NAN)).collect();
                        let tol = if kind == "standard" { 0.0 } else { 1e-9 };
                        out.check(gv.len() == n && gv.iter().zip(&want).all(|(a, b)| close(*a, *b, tol)),
                            || format!("create/lib/contribution/{kind}"),
                            || json!({"record": r + 1, "got": gv, "want": want, "gt": case["recs"][r]["gt"]}));
                    }
                    if matches!(kind, "standard" | "projected" | "insufficient" | "strict") {
                        // skipped samples: same set with the same reasons (order follows the columns)
                        let mut a: Vec<String> = got["skips"].as_array().unwrap().iter().map(|s| format!("{}:{}", s["s"].as_str().unwrap(), s["why"].as_str().unwrap())).collect();
                        let mut b: Vec<String> = e["skips"].as_array().unwrap().iter().map(|s| format!("{}:{}", s["s"].as_str().unwrap(), s["why"].as_str().unwrap())).collect();
                        a.sort();
                        b.sort();
                        out.check(a == b, || "create/lib/skipped-samples".into(), || json!({"record": r + 1, "got": a, "want": b}));
                    }
                }
                if outcome == "done" {
                    out.check(events.len() == h.len(), || "create/lib/event-count".into(), || json!({"got": events.len(), "want": h.len()}));
                    let want: Vec<f64> = case["scs"].as_array().unwrap().iter().map(qnum).collect();
                    let tol = if proj.is_empty() { 0.0 } else { 1e-9 };
                    out.check(total.len() == want.len() && total.iter().zip(&want).all(|(a, b)| close(*a, *b, tol)),
                        || "create/lib/final-spectrum".into(), || json!({"got": total, "want": want}));
                }
            }
        }
    }

    // ------------------------------------------------------------------ (ii) binary
    let mut args: Vec<String> = vec!["create".into()];
    if strict {
        args.push("--strict".into());
    }
    let mut sfile = None;
    if !all {
        if id % 2 == 0 {
            args.push("-s".into());
            args.push(case["samples_arg"].as_str().unwrap().to_string());
        } else {
            let p = cli::scratch(ctx, &format!("create_{id:016x}.samples"), case["samples_file"].as_str().unwrap().as_bytes());
            args.push("--samples-file".into());
            args.push(p.clone());
            sfile = Some(p);
        }
    }
    // beyond 17 decimals the digits are those of the double's exact expansion; they must still be printed
    let precision = [0usize, 1, 6, 12, 18, 25][(id / 7 % 6) as usize];
    if !proj.is_empty() {
        if proj.iter().all(|t| t % 2 == 1) && id % 5 < 2 {
            args.push("--project-individuals".into());
            args.push(proj.iter().map(|t| ((t - 1) / 2).to_string()).collect::<Vec<_>>().join(","));
        } else {
            args.push("--project-shape".into());
            args.push(proj.iter().map(|t| t.to_string()).collect::<Vec<_>>().join(","));
        }
        args.push("--precision".into());
        args.push(precision.to_string());
    }
    if proj.is_empty() && id % 6 == 0 {
        // without projection the counts are printed as exact integers whatever --precision says
        args.push("--precision".into());
        args.push("4".into());
    }
    let via_stdin = id % 4 == 1;
    if !via_stdin {
        args.push(path.clone());
    }
    // C09: the other list syntax must give the same result
    if std::env::var("CREATE_BOTH_SYNTAX").is_ok() && !all {
        let mut other: Vec<String> = Vec::new();
        let mut i = 0;
        let mut tmp = None;
        while i < args.len() {
            match args[i].as_str() {
                "-s" => {
                    let p = cli::scratch(ctx, &format!("create_{id:016x}.samples2"), case["samples_file"].as_str().unwrap().as_bytes());
                    other.extend(["--samples-file".into(), p.clone()]);
                    tmp = Some(p);
                    i += 2;
                }
                "--samples-file" => {
                    other.extend(["--samples".into(), case["samples_arg"].as_str().unwrap().to_string()]);
                    i += 2;
                }
                _ => {
                    other.push(args[i].clone());
                    i += 1;
                }
            }
        }
        let oa: Vec<&str> = other.iter().map(|s| s.as_str()).collect();
        let ro = cli::sfs(ctx, &oa, if via_stdin { Some(text.as_bytes()) } else { None });
        check_cli(&mut out, case, &ro, &other, precision, "other-syntax", false);
        if let Some(p) = tmp {
            let _ = std::fs::remove_file(p);
        }
    }
    let verbose = id % 3 == 1;
    if verbose {
        args.insert(1, "-vv".into());
    }
    // quiet runs: the logging level must not change what is computed, what fails, or what is written
    let quiet = !verbose && id % 7 == 3;
    if quiet {
        args.insert(1, if id % 2 == 0 { "-q".into() } else { "-qq".into() });
    }
    let a: Vec<&str> = args.iter().map(|s| s.as_str()).collect();
    let r = cli::sfs(ctx, &a, if via_stdin { Some(text.as_bytes()) } else { None });
    check_cli(&mut out, case, &r, &args, precision, if quiet { "vcf-quiet" } else { "vcf" }, verbose);

    // the sample list need not be a regular file: `-S <(cut -f1,2 panel.tsv)` hands the tool a pipe
    if let Some(sp) = &sfile {
        if id % 3 == 2 {
            let fifo = format!("{}/files/create_{id:016x}.samples.fifo", ctx.work);
            let fargs: Vec<String> = args.iter().map(|x| if x == sp { fifo.clone() } else { x.clone() }).collect();
            let fa: Vec<&str> = fargs.iter().map(|s| s.as_str()).collect();
            match cli::sfs_side_fifo(ctx, &fa, &fifo, case["samples_file"].as_str().unwrap().as_bytes(), if via_stdin { Some(text.as_bytes()) } else { None }) {
                Some(rf) => check_cli(&mut out, case, &rf, &fargs, precision, if quiet { "samples-pipe-quiet" } else { "samples-pipe" }, verbose),
                None => out.tag("fifo-unavailable".to_string()),
            }
        }
    }

    // the same records as BCF (raw or BGZF-compressed), when the check asks for it
    let also = std::env::var("CREATE_ALSO").unwrap_or_default();
    if also.contains("bcf") {
        {
            let raw = gen::own_bcf(&cols, &recs);
            let (label, bytes) = if id % 2 == 0 { ("bcf-raw", raw) } else {
                // an empty leading BGZF block is legal (e.g. `cat empty.gz body.bcf`)
                let mut b = if id % 3 == 0 { gen::bgzf_block(&[]) } else { Vec::new() };
                b.extend(gen::bgzf_chunks(&raw, 200 + (id % 1000) as usize));
                ("bcf-bgzf", b)
            };
            let bpath = cli::scratch(ctx, &format!("create_{id:016x}.bcf"), &bytes);
            let mut bargs: Vec<String> = args.iter().filter(|x| **x != path).cloned().collect();
            let stdin = id % 4 == 2;
            if !stdin {
                bargs.push(bpath.clone());
            }
            let ba: Vec<&str> = bargs.iter().map(|s| s.as_str()).collect();
            let rb = cli::sfs(ctx, &ba, if stdin { Some(&bytes) } else { None });
            let blabel = format!("{label}{}", if quiet { "-quiet" } else { "" });
            check_cli(&mut out, case, &rb, &bargs, precision, &blabel, verbose);
            let _ = std::fs::remove_file(&bpath);
            out.tag(format!("container:{label}"));
        }
    }
    let _ = std::fs::remove_file(&path);
    if let Some(p) = sfile {
        let _ = std::fs::remove_file(p);
    }
    out
}

/// Compare one run of the binary with what Create.tla says about this behaviour.
fn check_cli(out: &mut Outcome, case: &Value, r: &cli::Run, args: &[String], precision: usize, label: &str, verbose: bool) {
    let outcome = case["outcome"].as_str().unwrap();
    let diag = &case["diag"];
    let proj = usizes(&case["proj"]);
    let ctxd = |r: &cli::Run| json!({"args": args, "code": r.code, "stderr": r.stderr, "stdout": String::from_utf8_lossy(&r.stdout)});
    if r.panicked() {
        out.fail(format!("create/cli-{label}/panic"), ctxd(r));
    } else if outcome == "done" {
        out.check(r.ok(), || format!("create/cli-{label}/failed-but-should-succeed"), || ctxd(r));
        if r.ok() {
            let want: Vec<f64> = case["scs"].as_array().unwrap().iter().map(qnum).collect();
            let shape = usizes(&case["shape"]);
            if proj.is_empty() {
                // exact integers, exact bytes
                let rendered = format!(
                    "#SHAPE=<{}>\n{}\n",
                    shape.iter().map(|x| x.to_string()).collect::<Vec<_>>().join("/"),
                    want.iter().map(|x| format!("{}", *x as u64)).collect::<Vec<_>>().join(" ")
                );
                out.check(r.stdout == rendered.as_bytes(), || format!("create/cli-{label}/stdout-bytes"), || json!({"got": String::from_utf8_lossy(&r.stdout), "want": rendered, "args": args}));
            } else {
                match cli::parse_text(&r.stdout) {
                    Ok((gs, gv)) => {
                        let half = 0.5 * 10f64.powi(-(precision as i32));
                        out.check(gs == shape && gv.len() == want.len() && gv.iter().zip(&want).all(|(g, w)| (g - w).abs() <= half + 1e-9),
                            || format!("create/cli-{label}/projected-values"), || json!({"got": gv, "want": want, "args": args}));
                        // printed to exactly `precision` decimals
                        let line = String::from_utf8_lossy(&r.stdout).lines().nth(1).unwrap_or("").to_string();
                        let ok = line.split(' ').all(|t| match t.split_once('.') {
                            Some((_, f)) => f.len() == precision,
                            None => precision == 0,
                        });
                        out.check(ok, || format!("create/cli-{label}/precision"), || json!({"line": line, "precision": precision}));
                    }
                    Err(e) => out.fail(format!("create/cli-{label}/unparsable-stdout"), json!({"error": e, "run": ctxd(r)})),
                }
            }
            // skip summary on stderr: mass + skipped == records read
            let skipped = case["skipped"].as_u64().unwrap();
            let sites = case["sites"].as_u64().unwrap();
            let summary: Vec<(u64, u64)> = r
                .stderr
                .lines()
                .filter(|l| l.contains("kipped ") && l.contains('/') && l.contains(" sites"))
                .filter_map(|l| {
                    let t = l.split_whitespace().find(|t| t.contains('/') && t.chars().all(|c| c.is_ascii_digit() || c == '/'))?;
                    let (a, b) = t.split_once('/')?;
                    Some((a.parse().ok()?, b.parse().ok()?))
                })
                .collect();
            let quiet = label.ends_with("-quiet");
            if skipped == 0 || quiet {
                out.check(summary.is_empty(), || format!("create/cli-{label}/skip-summary-spurious"), || ctxd(r));
            } else {
                out.check(summary == vec![(skipped, sites)], || format!("create/cli-{label}/skip-summary"), || json!({"got": summary, "want": [skipped, sites], "stderr": r.stderr}));
            }
            // The stderr protocol is read by CONTENT, not by wording: a line that names a site of this call set and no sample is
            // an announcement of a skipped site; a line that names a site and a sample is a per-sample trace line and must carry
            // the reason the specification gives.  (The summary line names no site.)
            let site_names: Vec<String> = case["recs"].as_array().unwrap().iter().map(|rec| format!("{}:{}", rec["contig"].as_str().unwrap(), rec["pos"])).collect();
            let site_in = |l: &str| -> Option<String> {
                site_names.iter().find(|s| l.match_indices(s.as_str()).any(|(i, m)| {
                    let after = l[i + m.len()..].chars().next();
                    let before = l[..i].chars().last();
                    !after.map_or(false, |c| c.is_ascii_digit()) && !before.map_or(false, |c| c.is_ascii_alphanumeric())
                })).cloned()
            };
            let sample_names: Vec<String> = case["cols"].as_array().unwrap().iter().map(|c| c.as_str().unwrap().to_string()).collect();
            let sample_in = |l: &str| -> Option<String> {
                // a sample name occurs as a whole: not glued to further letters or digits on either side
                let glue = |c: Option<char>| c.map_or(false, |c| c.is_ascii_alphanumeric() || c == '_');
                sample_names.iter().find(|s| l.match_indices(s.as_str()).any(|(i, m)| !glue(l[..i].chars().last()) && !glue(l[i + m.len()..].chars().next()))).cloned()
            };
            // which skipped sites are announced: the first one by default, all of them from -v on
            {
                let key = if verbose { "announced_verbose" } else { "announced_default" };
                let want_sites: Vec<String> = if quiet { Vec::new() } else { case[key].as_array().map(|a| a.iter().map(|x| x.as_str().unwrap().to_string()).collect()).unwrap_or_default() };
                let got_sites: Vec<String> = r.stderr.lines().filter(|l| sample_in(l).is_none()).filter_map(|l| site_in(l)).collect();
                // Which skipped sites are announced at which verbosity is a logging policy, not one of the listed properties: the
                // replay insists that nothing is announced that was not skipped, and (from -v on) that every skipped site is named;
                // the as-built "first one only" policy of the default level is recorded as a tag when it is not followed.
                let all_skipped: Vec<String> = case["announced_verbose"].as_array().map(|a| a.iter().map(|x| x.as_str().unwrap().to_string()).collect()).unwrap_or_default();
                let sound = got_sites.iter().all(|s| all_skipped.contains(s));
                let complete = !verbose || quiet || all_skipped.iter().all(|s| got_sites.contains(s));
                out.check(sound && complete, || format!("create/cli-{label}/skip-announcements"), || json!({"got": got_sites, "skipped": all_skipped, "verbose": verbose}));
                if got_sites != want_sites {
                    out.tag("announcement-policy-differs-from-model".to_string());
                }
            }
            if verbose {
                // -vv: one trace line per skipped sample, with the reason the specification gives
                let mut want_lines: Vec<(String, String, String)> = Vec::new();
                for (e, rec) in case["h"].as_array().unwrap().iter().zip(case["recs"].as_array().unwrap()) {
                    for s in e["skips"].as_array().unwrap() {
                        want_lines.push((s["s"].as_str().unwrap().to_string(), format!("{}:{}", rec["contig"].as_str().unwrap(), rec["pos"]), s["why"].as_str().unwrap().to_lowercase()));
                    }
                }
                let mut got_lines: Vec<(String, String, String)> = r.stderr.lines().filter_map(|l| {
                    let (sm, st) = (sample_in(l)?, site_in(l)?);
                    let low = l.to_lowercase();
                    let why = ["missing", "multiallelic"].iter().find(|w| low.contains(*w)).map(|w| w.to_string()).unwrap_or_default();
                    Some((sm, st, why))
                }).collect();
                want_lines.sort();
                got_lines.sort();
                // every trace line must be TRUE (that sample is skipped at that site for that reason); whether all of them are
                // printed is logging policy
                out.check(got_lines.iter().all(|g| want_lines.contains(g)), || format!("create/cli-{label}/trace-lines"), || json!({"got": got_lines, "want": want_lines}));
                if want_lines != got_lines {
                    out.tag("trace-policy-differs-from-model".to_string());
                }
            }
        }
    } else {
        out.check(!r.ok(), || format!("create/cli-{label}/succeeded-but-should-fail"), || json!({"expected": diag, "run": ctxd(r)}));
        out.check(r.stdout.is_empty(), || format!("create/cli-{label}/partial-output"), || ctxd(r));
        out.check(!r.stderr.trim().is_empty(), || format!("create/cli-{label}/no-diagnostic"), || ctxd(r));
        let kind = diag["kind"].as_str().unwrap();
        if kind == "strict" || kind == "ploidy" {
            let site = diag["site"].as_str().unwrap();
            out.check(r.stderr.contains(site), || format!("create/cli-{label}/diagnostic-site/{kind}"), || json!({"want_site": site, "stderr": r.stderr}));
        }
    }
}
