//! Family `textgrammar` (TextGrammar.tla): files spelled character by character; the model's verdict (accepted with
//! shape and token count, or rejected) must be the verdict of the library reader and of the binary.

use serde_json::{json, Value};
use sfs_core::{input::Input, spectrum::io::read};

use crate::{cli, common::*};

pub fn run(case: &Value, ctx: &Ctx) -> Outcome {
    let mut out = Outcome::default();
    let file = case["file"].as_str().unwrap().as_bytes().to_vec();
    let v = &case["verdict"];
    let accept = v["accept"].as_bool().unwrap();
    let sc = &case["sc"];
    out.nontrivial = Some(sc.to_string());
    out.tag(format!("accept:{accept}"));
    out.tag(format!("stage:{}", v["stage"].as_str().unwrap_or("")));
    let label = format!("{}/{}/{}", sc["h"].as_str().unwrap(), sc["b"].as_str().unwrap(), sc["v"].as_str().unwrap());
    let id = case.to_string().bytes().fold(3u64, |h, b| h.wrapping_mul(1_000_003).wrapping_add(b as u64));
    let want_shape = if accept { usizes(&v["shape"]) } else { vec![] };
    let want_n = v["ntok"].as_u64().unwrap_or(0) as usize;

    let canonical = sc["h"] == "canonical" && matches!(sc["b"].as_str().unwrap(), "single_blank") && matches!(sc["v"].as_str().unwrap(), "plain" | "int" | "inf" | "nan" | "minus_zero" | "neg_infinity");
    let path = cli::scratch(ctx, &format!("tg_{}_{id:016x}.sfs", std::process::id()), &file);
    let lib = guarded(|| {
        read::Builder::default()
            .set_input(Input::Path(path.clone().into()))
            .read()
            .map(|s| (s.shape().as_ref().to_vec(), s.inner().as_slice().len()))
            .map_err(|e| e.to_string())
    });
    let _ = std::fs::remove_file(&path);
    let d = |extra: Value| json!({"file": String::from_utf8_lossy(&file), "model": v, "observed": extra});
    match (&lib, accept) {
        (Err(p), _) => out.fail(format!("textgrammar/lib-panic/{label}"), d(json!(p))),
        (Ok(Ok((s, n))), true) => out.check(*s == want_shape && *n == want_n, || format!("textgrammar/lib-shape/{label}"), || d(json!({"shape": s, "n": n}))),
        // A reader STRICTER than the as-built model breaks no listed property - unless it refuses what the tool itself writes
        // (C07): canonical header, values separated by single blanks, a value spelling the writer can produce.
        (Ok(Err(e)), true) => {
            if canonical {
                out.fail(format!("textgrammar/lib-rejects-what-the-tool-writes/{label}"), d(json!(e)));
            } else {
                out.tag("stricter-than-model".to_string());
            }
        }
        (Ok(Ok((s, n))), false) => out.fail(format!("textgrammar/lib-accepts-what-the-model-rejects/{label}"), d(json!({"shape": s, "n": n}))),
        (Ok(Err(_)), false) => out.check(true, String::new, || Value::Null),
    }
    let r = cli::sfs(ctx, &["view", "-O", "npy"], Some(&file));
    if r.panicked() {
        out.fail(format!("textgrammar/cli-panic/{label}"), d(json!({"code": r.code, "stderr": r.stderr})));
    } else if accept {
        let parsed = cli::parse_npy(&r.stdout);
        let fine = r.ok() && parsed.as_ref().map(|(s, x)| *s == want_shape && x.len() == want_n).unwrap_or(false);
        if canonical || r.ok() {
            // accepted: it must be the spectrum the model reads; refused: only an alarm for what the tool writes itself
            out.check(fine, || format!("textgrammar/cli-{}/{label}", if r.ok() { "reads-another-spectrum" } else { "rejects-what-the-tool-writes" }), || d(json!({"code": r.code, "stderr": r.stderr})));
        } else {
            out.check(r.stdout.is_empty() && !r.stderr.trim().is_empty(), || format!("textgrammar/cli-silent-rejection/{label}"), || d(json!({"code": r.code})));
        }
    } else {
        out.check(!r.ok() && r.stdout.is_empty() && !r.stderr.trim().is_empty(),
            || format!("textgrammar/cli-accepts-what-the-model-rejects/{label}"), || d(json!({"code": r.code, "stdout_len": r.stdout.len(), "stderr": r.stderr})));
    }
    out
}
