//! Family `npy` (C15 C16): writer layout, reader dtype/spelling matrix, rejected headers, damaged files.

use serde_json::{json, Value};
use sfs_core::{Array, Scs};

use crate::{cli, common::*};

pub fn assemble(version: u8, header: &str, data: &[u8]) -> Vec<u8> {
    let mut out = b"\x93NUMPY".to_vec();
    out.push(version);
    out.push(0);
    if version == 1 {
        out.extend_from_slice(&(header.len() as u16).to_le_bytes());
    } else {
        out.extend_from_slice(&(header.len() as u32).to_le_bytes());
    }
    out.extend_from_slice(header.as_bytes());
    out.extend_from_slice(data);
    out
}

fn read(bytes: &[u8]) -> Result<Result<(Vec<usize>, Vec<f64>), String>, String> {
    guarded(|| {
        Array::read_npy(bytes)
            .map(|a| (a.shape().as_ref().to_vec(), a.as_slice().to_vec()))
            .map_err(|e| e.to_string())
    })
}

const POOL: [f64; 12] = [0.0, 1.0, -1.5, 1e300, -1e-300, 5e-324, f64::INFINITY, f64::NEG_INFINITY, f64::NAN, -0.0, 123456789.125, 0.1];

pub fn run(case: &Value, ctx: &Ctx) -> Outcome {
    let mut out = Outcome::default();
    let kind = case["kind"].as_str().unwrap();
    out.tag(format!("kind:{kind}"));
    match kind {
        "writer" => {
            let shape = usizes(&case["shape"]);
            let header = case["header"].as_str().unwrap();
            let n: usize = shape.iter().product();
            let dict_len = case["dict_len"].as_u64().unwrap();
            out.nontrivial = Some(format!("writer/{shape:?}"));
            out.tag(format!("residue:{}", (10 + dict_len) % 64));
            let mut values: Vec<f64> = (0..n).map(|i| POOL[i % POOL.len()]).collect();
            if let Some(v) = values.get_mut(0) {
                *v = f64::from_bits(0x7ff8_dead_beef_0001); // NaN with a payload: must survive bit for bit
            }
            let mut data = Vec::new();
            for v in &values {
                data.extend_from_slice(&v.to_le_bytes());
            }
            let want = assemble(1, header, &data);
            let array = Array::new(values.clone(), shape.clone()).unwrap();
            let mut got = Vec::new();
            let res = guarded(|| array.write_npy(&mut got).map_err(|e| e.to_string()));
            match res {
                Ok(Ok(())) => {
                    out.check(got == want, || format!("npy/writer/bytes{}", if (10 + dict_len) % 64 == 0 { "/dict-on-boundary" } else { "" }),
                        || json!({"shape": shape, "got_len": got.len(), "want_len": want.len(), "got_head": String::from_utf8_lossy(&got[..got.len().min(200)]), "want_header": header}));
                    // and numpy's own requirements, stated independently of the expected bytes
                    match cli::parse_npy(&got) {
                        Ok((s, v)) => out.check(s == shape && v.len() == values.len() && v.iter().zip(&values).all(|(a, b)| a.to_bits() == b.to_bits()),
                            || "npy/writer/strict-parse-values".into(), || json!({"shape": s})),
                        Err(e) => out.fail("npy/writer/not-valid-npy", json!({"shape": shape, "error": e})),
                    }
                }
                Ok(Err(e)) => out.fail("npy/writer/error", json!({"shape": shape, "error": e})),
                Err(p) => out.fail(format!("npy/writer/panic{}", if (10 + dict_len) % 64 == 0 { "/dict-on-boundary" } else { "" }), json!({"shape": shape, "panic": p, "bytes_already_written": got.len()})),
            }
            // the binary: text in, npy out
            if n > 0 {
                // 3.25 carries a newline byte (0x0A) in its encoding: with more than 1 KiB of data after it a
                // line-buffered stdout only shows the whole data section if every byte is really written
                let ints: Vec<f64> = (0..n).map(|i| if i == 0 { 3.25 } else { (i % 97) as f64 }).collect();
                let text = cli::write_text(&shape, &ints, 2);
                let mut d2 = Vec::new();
                for v in &ints {
                    d2.extend_from_slice(&v.to_le_bytes());
                }
                let want2 = assemble(1, header, &d2);
                let r = cli::sfs(ctx, &["view", "-O", "npy"], Some(&text));
                out.check(r.ok() && r.stdout == want2, || format!("npy/writer/cli{}", if r.panicked() { "-panic" } else { "" }),
                    || json!({"shape": shape, "code": r.code, "stderr": r.stderr, "stdout_len": r.stdout.len(), "want_len": want2.len()}));
                // stdout dead from the first byte: `view -O npy` must end in a diagnosed error (a writer that leaves its last
                // bytes to a destructor reports success)
                let d = cli::sfs_dead_stdout(ctx, &["view", "-O", "npy"], &text, "enospc");
                out.check(!d.ok() && !d.panicked() && !d.stderr.trim().is_empty(), || "npy/writer/cli-dead-sink".into(), || json!({"shape": shape, "code": d.code, "stderr": d.stderr}));
                // the same file written with -o over an older, LONGER file: header + exactly prod(shape) doubles, nothing else
                let (f, left) = cli::sfs_onto_stale_file(ctx, &["view", "-O", "npy"], &text, "npy");
                out.check(f.ok() && !left && f.stdout == want2, || "npy/writer/cli-stale-destination".into(),
                    || json!({"shape": shape, "code": f.code, "stderr": f.stderr, "file_len": f.stdout.len(), "want_len": want2.len(), "also_on_stdout": left}));
            }
        }
        "reader" => {
            let f = &case["file"];
            let version = f["version"].as_u64().unwrap() as u8;
            let header = f["header"].as_str().unwrap();
            let rep = f["repeat"].as_u64().unwrap_or(1) as usize;
            let data: Vec<u8> = f["data"].as_array().unwrap().iter().map(|b| b.as_u64().unwrap() as u8).collect::<Vec<u8>>().repeat(rep);
            let shape = usizes(&f["shape"]);
            let bytes = assemble(version, header, &data);
            out.nontrivial = Some(format!("reader/{}{}v{}/{}", case["order"].as_str().unwrap(), case["type"].as_str().unwrap(), version, header.trim()));
            let want: Vec<f64> = f["expect"].as_array().unwrap().iter().map(|e| match e["class"].as_str().unwrap() {
                "inf" => f64::INFINITY,
                "-inf" => f64::NEG_INFINITY,
                "nan" => f64::NAN,
                _ => {
                    let v = qnum(&e["v"]);
                    if e["negzero"].as_bool().unwrap_or(false) { -0.0 } else { v }
                }
            }).collect::<Vec<f64>>().repeat(rep);
            let same = |a: &f64, b: &f64| (a.is_nan() && b.is_nan()) || a.to_bits() == b.to_bits();
            match read(&bytes) {
                Ok(Ok((gs, gv))) => {
                    out.check(gs == shape, || "npy/reader/shape".into(), || json!({"got": gs, "want": shape, "header": header}));
                    out.check(gv.len() == want.len() && gv.iter().zip(&want).all(|(a, b)| same(a, b)), || format!("npy/reader/values/{}", case["type"].as_str().unwrap()),
                        || json!({"got": gv.iter().map(|x| format!("{x:e}")).collect::<Vec<_>>(), "want": want.iter().map(|x| format!("{x:e}")).collect::<Vec<_>>(), "header": header}));
                }
                Ok(Err(e)) => out.fail("npy/reader/rejected-valid", json!({"error": e, "header": header, "version": version})),
                Err(p) => out.fail("npy/reader/panic", json!({"panic": p, "header": header})),
            }
            // through the binary, converted back to npy
            let r = cli::sfs(ctx, &["view", "-O", "npy"], Some(&bytes));
            match (r.ok(), cli::parse_npy(&r.stdout)) {
                (true, Ok((gs, gv))) => out.check(gs == shape && gv.len() == want.len() && gv.iter().zip(&want).all(|(a, b)| same(a, b)), || "npy/reader/cli-values".into(), || json!({"header": header})),
                (_, e) => out.fail(format!("npy/reader/cli-{}", if r.panicked() { "panic" } else { "error" }), json!({"code": r.code, "stderr": r.stderr, "parse": format!("{e:?}"), "header": header})),
            }
        }
        "reject" => {
            let header = case["header"].as_str().unwrap();
            // the data section has exactly the length the header announces, so that nothing but the dtype / the order can be
            // the reason for the rejection
            let descr = case["descr"].as_str().unwrap_or("<f8");
            let itemsize: usize = descr.chars().filter(|c| c.is_ascii_digit()).collect::<String>().parse().unwrap_or(8);
            let elements: usize = case["shape"].as_array().map(|a| a.iter().map(|x| x.as_u64().unwrap() as usize).product()).unwrap_or(2);
            let bytes = assemble(1, header, &(0..elements * itemsize).map(|i| (i % 7) as u8).collect::<Vec<u8>>());
            out.nontrivial = Some(format!("reject/{}", header.trim()));
            match read(&bytes) {
                Ok(Err(_)) => out.check(true, String::new, || Value::Null),
                Ok(Ok(_)) => out.fail("npy/reject/accepted", json!({"header": header})),
                Err(p) => out.fail("npy/reject/panic", json!({"header": header, "panic": p})),
            }
            let r = cli::sfs(ctx, &["view"], Some(&bytes));
            out.check(!r.ok() && !r.panicked() && r.stdout.is_empty() && !r.stderr.trim().is_empty(), || "npy/reject/cli".into(), || json!({"header": header, "code": r.code, "stderr": r.stderr}));
        }
        "dupkey" => {
            let header = case["header"].as_str().unwrap();
            let n = case["data_len"].as_u64().unwrap() as usize;
            let accept = case["accept"].as_bool().unwrap();
            let shape = usizes(&case["shape"]);
            // f8 values 1.0, 2.0, .. (as f4 pairs they are other numbers, but only acceptance and shape are judged)
            let mut data = Vec::new();
            for i in 0..(n / 8) { data.extend_from_slice(&((i + 1) as f64).to_le_bytes()); }
            let bytes = assemble(1, header, &data);
            out.nontrivial = Some(format!("dupkey/{}/{}", case["key"], case["fits"]));
            match read(&bytes) {
                Ok(Ok((s, v))) => out.check(accept && s == shape, || "npy/dupkey/accepted-by-first-value".into(), || json!({"header": header.trim(), "read_shape": s, "values": v.len()})),
                // (a reader that refuses repeated keys altogether is stricter than the model, which breaks nothing)
                Ok(Err(_)) => { if accept { out.tag("stricter-than-model:repeated-key".to_string()); } out.check(true, String::new, || Value::Null) }
                Err(p) => out.fail("npy/dupkey/panic", json!({"panic": p})),
            }
            let r = cli::sfs(ctx, &["view", "-O", "npy"], Some(&bytes));
            out.check(!r.panicked() && (!r.ok() || accept) && (r.ok() || r.stdout.is_empty()), || "npy/dupkey/cli".into(), || json!({"header": header.trim(), "code": r.code, "stderr": r.stderr, "accept": accept}));
        }
        "damage" => {
            let f = &case["file"];
            let version = f["version"].as_u64().unwrap() as u8;
            let header = f["header"].as_str().unwrap();
            let itemsize = f["itemsize"].as_u64().unwrap() as usize;
            let elements = f["elements"].as_u64().unwrap() as usize;
            let max_ext = case["max_ext"].as_u64().unwrap() as usize;
            let ty = f["type"].as_str().unwrap();
            // small positive values in every dtype: a reader that accepts damage would show a plausible spectrum
            let mut data = Vec::new();
            for i in 0..elements {
                match ty {
                    "f8" => data.extend_from_slice(&((i + 1) as f64).to_le_bytes()),
                    "f4" => data.extend_from_slice(&((i + 1) as f32).to_le_bytes()),
                    _ => {
                        let mut b = vec![0u8; itemsize];
                        b[0] = (i + 1) as u8;
                        data.extend_from_slice(&b);
                    }
                }
            }
            let bytes = assemble(version, header, &data);
            out.nontrivial = Some(format!("damage/v{version}/{ty}/{}", f["shape"]));
            match read(&bytes) {
                Ok(Ok(_)) => out.check(true, String::new, || Value::Null),
                other => out.fail("npy/damage/intact-rejected", json!({"result": format!("{other:?}"), "header": header})),
            }
            let data_off = bytes.len() - data.len();
            // every offset of small files; for long ones every offset near both ends and around buffer-sized
            // boundaries, and every 61st in between
            let offsets: Vec<usize> = if bytes.len() <= 2000 { (0..bytes.len()).collect() } else {
                (0..bytes.len()).filter(|t| *t < 300 || *t + 300 > bytes.len() || t % 61 == 0 || (t % 1024) < 3 || (t % 1024) > 1021 || ((t + 128) % 8192) < 12).collect()
            };
            for t in offsets {
                match read(&bytes[..t]) {
                    Ok(Err(_)) => out.check(true, String::new, || Value::Null),
                    Ok(Ok((s, v))) => out.fail(format!("npy/damage/prefix-accepted/{}", if t < data_off { "header" } else if (t - data_off) % itemsize == 0 { "value-boundary" } else { "mid-value" }),
                        json!({"cut_at": t, "of": bytes.len(), "data_offset": data_off, "read_shape": s, "read_values": v.len(), "header": header.trim()})),
                    Err(p) => out.fail("npy/damage/prefix-panic", json!({"cut_at": t, "panic": p})),
                }
            }
            let fills: Vec<String> = case["fills"].as_array().map(|a| a.iter().map(|x| x.as_str().unwrap().to_string()).collect()).unwrap_or_else(|| vec!["pattern".into()]);
            let junk = |fill: &str, e: usize| -> Vec<u8> {
                let cyc = |p: &[u8]| p.iter().cycle().take(e).copied().collect::<Vec<u8>>();
                match fill {
                    "zero" => vec![0u8; e],
                    "ff" => vec![0xffu8; e],
                    "newline" => vec![b'\n'; e],
                    "space" => vec![b' '; e],
                    "crlf" => cyc(b"\r\n"),
                    "tab" => vec![b'\t'; e],
                    "formfeed" => cyc(b"\x0c\n "),
                    "text" => cyc(b"\n1.5 2 3\n"),
                    "magic" => cyc(b"\x93NUMPY\x01\x00"),
                    _ => (0..e).map(|i| (i as u8).wrapping_mul(37).wrapping_add(1)).collect(),
                }
            };
            for fill in &fills {
                for e in 1..=max_ext {
                    let mut ext = bytes.clone();
                    ext.extend(junk(fill, e));
                    match read(&ext) {
                        Ok(Err(_)) => out.check(true, String::new, || Value::Null),
                        Ok(Ok((s, v))) => out.fail(format!("npy/damage/extension-accepted/{fill}"), json!({"extra": e, "fill": fill, "read_shape": s, "read_values": v.len(), "header": header.trim()})),
                        Err(p) => out.fail("npy/damage/extension-panic", json!({"extra": e, "fill": fill, "panic": p})),
                    }
                    // the same extended file through a stream that is INTERRUPTED once (EINTR) after e bytes of values: whatever
                    // a reader does about the interruption (surface it, or go on), it may not end up accepting the file - the values
                    // read before the interruption stay read
                    if e % itemsize.max(1) == 0 && data_off + e <= bytes.len() {
                        let r = guarded(|| {
                            let rd = crate::sched::SchedReader::new(ext.clone(), data_off, 0, None).with_eintr(data_off + e);
                            sfs_core::Array::read_npy(rd).map(|a| (a.shape().as_ref().to_vec(), a.as_slice().to_vec())).map_err(|x| x.to_string())
                        });
                        match r {
                            Ok(Err(_)) => out.check(true, String::new, || Value::Null),
                            Ok(Ok((s, v))) => out.fail(format!("npy/damage/extension-accepted-after-eintr/{fill}"), json!({"extra": e, "fill": fill, "read_shape": s, "read_values": v.len(), "header": header.trim()})),
                            Err(p) => out.fail("npy/damage/extension-eintr-panic", json!({"extra": e, "fill": fill, "panic": p})),
                        }
                    }
                }
            }
            // the three consumers of the binary on the interesting cuts
            let mut cuts: Vec<usize> = vec![0, 1, 5, 6, 7, 8, 9, 10, 11, 12, data_off.saturating_sub(1), data_off, data_off + 1, data_off + itemsize, bytes.len().saturating_sub(1)];
            cuts.retain(|c| *c < bytes.len());
            cuts.sort();
            cuts.dedup();
            let sub = [vec!["view"], vec!["fold"], vec!["stat", "-s", "sum"]];
            for (ci, c) in cuts.iter().enumerate() {
                let args = &sub[ci % 3];
                let r = cli::sfs(ctx, args, Some(&bytes[..*c]));
                out.check(!r.ok() && !r.panicked() && r.stdout.is_empty() && !r.stderr.trim().is_empty(),
                    || format!("npy/damage/cli-{}{}", args[0], if r.panicked() { "-panic" } else { "" }),
                    || json!({"cut_at": c, "of": bytes.len(), "code": r.code, "stderr": r.stderr, "stdout_len": r.stdout.len()}));
            }
            let mut k = 0usize;
            for fill in &fills {
                for e in [1usize, 2, itemsize, 16] {
                    let mut ext = bytes.clone();
                    ext.extend(junk(fill, e));
                    let args = &sub[k % 3];
                    k += 1;
                    let r = cli::sfs(ctx, args, Some(&ext));
                    out.check(!r.ok() && !r.panicked() && r.stdout.is_empty(), || format!("npy/damage/cli-ext-{}/{fill}", args[0]), || json!({"extra": e, "fill": fill, "code": r.code, "stderr": r.stderr, "stdout_len": r.stdout.len()}));
                    // the intact file arrives first and the extra bytes in a later burst (a reader that stops at the first short
                    // read would have seen a valid file by then)
                    if k % 7 == 0 {
                        let r = cli::sfs_delayed(ctx, args, &ext, bytes.len());
                        out.check(!r.ok() && !r.panicked() && r.stdout.is_empty(), || format!("npy/damage/cli-ext-late-{}/{fill}", args[0]), || json!({"extra": e, "fill": fill, "code": r.code, "stderr": r.stderr, "stdout_len": r.stdout.len()}));
                    }
                }
            }
            let _ = Scs::from_zeros(1);
        }
        other => out.fail("npy/unknown-kind", json!(other)),
    }
    out
}
