//! Family `createlarge` (C02, cohorts of hundreds of samples): class-level records of CreateLarge.tla
//! rendered as VCF with exactly those called/ALT counts, run through `sfs create --project-shape`.

use serde_json::{json, Value};

use crate::{cli, common::*, gen};

pub fn run(case: &Value, ctx: &Ctx) -> Outcome {
    let mut out = Outcome::default();
    let pops = usizes(&case["pops"]);
    let proj = usizes(&case["proj"]);
    // factored scenarios carry, per counted record, one row per axis; the expected spectrum is the sum of their outer products
    let want: Vec<f64> = if case["factored"].as_bool().unwrap_or(false) {
        let n: usize = proj.iter().product();
        let mut acc = vec![0.0f64; n];
        for rec in case["rows"].as_array().unwrap() {
            let rows: Vec<Vec<f64>> = rec.as_array().unwrap().iter().map(|r| r.as_array().unwrap().iter().map(qnum).collect()).collect();
            if rows.is_empty() {
                continue;
            }
            for (q, cell) in acc.iter_mut().enumerate() {
                let mut rem = q;
                let mut w = 1.0;
                for j in (0..proj.len()).rev() {
                    w *= rows[j][rem % proj[j]];
                    rem /= proj[j];
                }
                *cell += w;
            }
        }
        acc
    } else {
        case["scs"].as_array().unwrap().iter().map(qnum).collect()
    };
    out.nontrivial = Some(format!("{pops:?}->{proj:?}/{}", case["recs"]));
    let mut cols = Vec::new();
    let mut labels = Vec::new();
    for (j, &n) in pops.iter().enumerate() {
        for i in 0..n {
            cols.push(format!("p{j}_{i}"));
            labels.push(format!("P{j}"));
        }
    }
    let mut recs = Vec::new();
    for (r, rec) in case["recs"].as_array().unwrap().iter().enumerate() {
        let mut gt = std::collections::BTreeMap::new();
        let mut col = 0;
        for (j, &n) in pops.iter().enumerate() {
            let c = rec[j][0].as_u64().unwrap() as usize;
            let a = rec[j][1].as_u64().unwrap() as usize;
            // spread the called individuals over the population (not only the first columns)
            let called: Vec<usize> = (0..n).filter(|i| (i * 7 + r) % n < c || c == n).take(c).collect();
            let called: Vec<usize> = if called.len() == c { called } else { (0..c).collect() };
            let (hom, het) = (a / 2, a % 2);
            for i in 0..n {
                let pos = called.iter().position(|x| *x == i);
                let g = match pos {
                    None => "./.",
                    Some(k) if k < hom => "1/1",
                    Some(k) if k < hom + het => if (k + r) % 2 == 0 { "0|1" } else { "1/0" },
                    Some(_) => "0/0",
                };
                gt.insert(cols[col + i].clone(), g.to_string());
            }
            col += n;
        }
        recs.push(gen::Rec { contig: "chr1".into(), pos: (r + 1) as u64, bad: false, nogt: false, short_alt: false, gt });
    }
    let vcf = gen::vcf_text(&cols, &recs, false);
    let arg = cols.iter().zip(&labels).map(|(c, l)| format!("{c}={l}")).collect::<Vec<_>>().join(",");
    let shape = proj.iter().map(|t| t.to_string()).collect::<Vec<_>>().join(",");
    let mut runs: Vec<Vec<String>> = vec![vec!["create".into(), "-s".into(), arg.clone(), "--project-shape".into(), shape, "--precision".into(), "40".into()]];
    if proj.iter().all(|t| t % 2 == 1) {
        runs.push(vec!["create".into(), "-s".into(), arg, "-p".into(), proj.iter().map(|t| ((t - 1) / 2).to_string()).collect::<Vec<_>>().join(","), "--precision".into(), "40".into(), "-t".into(), "2".into()]);
    }
    for args in runs {
        let a: Vec<&str> = args.iter().map(|s| s.as_str()).collect();
        let r = cli::sfs(ctx, &a, Some(vcf.as_bytes()));
        let short: Vec<String> = args.iter().map(|s| if s.len() > 40 { format!("{}...", &s[..40]) } else { s.clone() }).collect();
        match (r.ok(), cli::parse_text(&r.stdout)) {
            (true, Ok((gs, gv))) => {
                out.check(gs == proj, || "createlarge/shape".into(), || json!({"got": gs, "want": proj}));
                let bad: Vec<(usize, f64, f64)> = gv.iter().zip(&want).enumerate().filter(|(_, (g, w))| !((*g - *w).abs() <= 1e-9 * w.abs() + 1e-39)).map(|(i, (g, w))| (i, *g, *w)).take(5).collect();
                out.check(gv.len() == want.len() && bad.is_empty(), || "createlarge/values".into(), || json!({"args": short, "first_bad_cells": bad, "mass": gv.iter().sum::<f64>(), "mass_expected": want.iter().sum::<f64>()}));
                out.check(gv.iter().all(|v| v.is_finite()), || "createlarge/non-finite".into(), || json!({"args": short}));
                let skipped = case["skipped"].as_u64().unwrap();
                let said = r.stderr.lines().filter(|l| l.contains("Skipped ")).count() as u64;
                out.check((skipped > 0) == (said > 0), || "createlarge/skip-summary".into(), || json!({"skipped": skipped, "stderr": r.stderr}));
            }
            (_, e) => out.fail(format!("createlarge/{}", if r.panicked() { "panic" } else { "error" }), json!({"args": short, "code": r.code, "stderr": r.stderr.chars().take(300).collect::<String>(), "parse": format!("{e:?}")})),
        }
    }
    out
}
