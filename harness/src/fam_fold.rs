//! Family `fold` (C05): sequences of fold / mirror from Fold.tla replayed on Spectrum::fold and `sfs fold`.

use rand::{rngs::StdRng, Rng, SeedableRng};
use serde_json::{json, Value};
use sfs_core::Scs;

use crate::{cli, common::*, symbolic::Symbolic};

const FILLS: [(&str, f64); 4] = [("nan", f64::NAN), ("zero", 0.0), ("minus-one", -1.0), ("inf", f64::INFINITY)];

/// Mirror by index arithmetic (every k_j -> n_j - k_j), independent of the flat-reversal trick.
fn mirror(shape: &[usize], x: &[f64]) -> Vec<f64> {
    let n = x.len();
    let mut strides = vec![1usize; shape.len()];
    for i in (0..shape.len().saturating_sub(1)).rev() {
        strides[i] = strides[i + 1] * shape[i + 1];
    }
    let mut out = vec![0.0; n];
    for p in 0..n {
        let mut rem = p;
        let mut q = 0;
        for (j, &st) in strides.iter().enumerate() {
            let k = rem / st;
            rem %= st;
            q += (shape[j] - 1 - k) * st;
        }
        out[q] = x[p];
    }
    out
}

fn same_bits_or_close(a: f64, b: f64, tol: f64) -> bool {
    if tol == 0.0 {
        (a.is_nan() && b.is_nan()) || a == b
    } else {
        close(a, b, tol)
    }
}

pub fn run(case: &Value, ctx: &Ctx) -> Outcome {
    let mut out = Outcome::default();
    let shape = usizes(&case["shape"]);
    let n: usize = shape.iter().product();
    let hist: Vec<&str> = case["hist"].as_array().unwrap().iter().map(|h| h.as_str().unwrap()).collect();
    let sym = Symbolic::parse(&case["result"]);
    let total: usize = shape.iter().sum::<usize>() - shape.len();
    if n > 1 {
        out.nontrivial = Some(format!("{shape:?}/{hist:?}"));
    }
    out.tag(format!("T:{}", if total % 2 == 0 { "even" } else { "odd" }));
    out.tag(format!("ops:{}", hist.len()));

    let mut rng = StdRng::seed_from_u64(ctx.seed ^ (n as u64).wrapping_mul(0x9E3779B97F4A7C15));
    let mut inputs: Vec<(&str, Vec<f64>, f64)> = vec![
        // distinct powers of two: every sum the operator can form is exact and identifies its terms
        ("pow2", (0..n).map(|p| (2.0f64).powi((p % 48) as i32) + (p / 48) as f64).collect(), 0.0),
        ("real", (0..n).map(|_| rng.gen::<f64>() * 1e3 - 200.0).collect(), 1e-12),
    ];
    // sparse spectra: most mirror pairs are zero on both sides (an entry that must fold to 0, not to the fill)
    inputs.push(("sparse", (0..n).map(|p| if p % 3 == 1 { (p + 2) as f64 } else { 0.0 }).collect(), 0.0));
    inputs.push(("all-zero", vec![0.0; n], 0.0));
    // +inf and -inf in mirror positions (their sum is NaN - a VALUE, not the fill), and a NaN cell
    inputs.push(("nonfinite", (0..n).map(|p| if p == 0 { f64::INFINITY } else if p + 1 == n && n > 1 { f64::NEG_INFINITY } else if p == 1 && n > 3 { f64::NAN } else { (p + 1) as f64 }).collect(), 0.0));
    if hist.len() == 1 {
        let pool = [-0.0, 5e-324, -2.5e-310, 1e300, -1e300, 1.0 / 3.0, 123456.789, f64::MAX / 4.0];
        // not bit-exact: averaging a self-mirrored diagonal cell as 0.5*x + 0.5*x underflows for the
        // smallest subnormals; that is rounding, not a wrong partner or weight
        inputs.push(("special", (0..n).map(|p| pool[(p * 7 + 3) % pool.len()]).collect(), 1e-15));
    }

    for (fname, fill) in FILLS {
        for (iname, x, tol) in &inputs {
            let want = sym.eval(x, fill);
            let got = guarded(|| {
                let mut s = Scs::new(x.clone(), shape.clone()).unwrap();
                for op in &hist {
                    s = match *op {
                        "fold" => s.fold().into_spectrum(fill),
                        "mirror" => Scs::new(mirror(&shape, s.inner().as_slice()), shape.clone()).unwrap(),
                        _ => unreachable!(),
                    };
                }
                (s.shape().as_ref().to_vec(), s.inner().as_slice().to_vec())
            });
            match got {
                Ok((gs, gv)) => {
                    let ok = gs == shape && gv.len() == want.len() && gv.iter().zip(&want).all(|(a, b)| same_bits_or_close(*a, *b, *tol));
                    out.check(ok, || format!("fold/lib/{}", if gs != shape { "shape" } else { "value" }),
                        || json!({"fill": fname, "input": iname, "x": x, "got": fmt(&gv), "want": fmt(&want)}));
                }
                Err(m) => out.fail("fold/lib/panic", json!({"fill": fname, "input": iname, "panic": m})),
            }
        }
    }

    // One Folded value is a VALUE: unfolding it with a fill is a function of (folded, fill) only - however often, in whatever
    // order of fills, and from a clone, it is asked (Fold.tla: the fill is a parameter of the reading, not state of the fold).
    if hist == ["fold"] {
        for (iname, x, tol) in inputs.iter().take(2) {
            let res = guarded(|| {
                let s = Scs::new(x.clone(), shape.clone()).unwrap();
                let folded = s.fold();
                let mut seen: Vec<(String, Vec<f64>)> = Vec::new();
                for (fname, fill) in FILLS.iter().chain(FILLS.iter().rev()) {
                    seen.push((fname.to_string(), folded.into_spectrum(*fill).inner().as_slice().to_vec()));
                }
                let cloned = folded.clone();
                for (fname, fill) in FILLS.iter().rev() {
                    seen.push((format!("clone:{fname}"), cloned.into_spectrum(*fill).inner().as_slice().to_vec()));
                }
                seen
            });
            match res {
                Ok(seen) => for (fname, gv) in seen {
                    let fill = FILLS.iter().find(|(n, _)| fname.ends_with(n)).map(|(_, f)| *f).unwrap();
                    let want = sym.eval(x, fill);
                    out.check(gv.len() == want.len() && gv.iter().zip(&want).all(|(a, b)| same_bits_or_close(*a, *b, *tol)),
                        || "fold/lib/shared-folded".to_string(), || json!({"fill": fname, "input": iname, "got": fmt(&gv), "want": fmt(&want)}));
                },
                Err(m) => out.fail("fold/lib/shared-folded/panic", json!({"panic": m})),
            }
        }
    }

    // the binary: a single fold, optionally of the mirrored input
    if hist == ["fold"] || hist == ["mirror", "fold"] {
        for which in [0usize, 2, 4] {
        let x0 = &inputs[which].1;
        let fed = if hist.len() == 2 { mirror(&shape, x0) } else { x0.clone() };
        let text = cli::write_text(&shape, &fed, 0);
        for (fname, fill) in FILLS {
            let want = sym.eval(x0, fill);
            let r = cli::sfs(ctx, &["fold", "--fill", fname, "--precision", "1"], Some(&text));
            match (r.ok(), cli::parse_text(&r.stdout)) {
                (true, Ok((gs, gv))) => {
                    let ok = gs == shape && gv.len() == want.len() && gv.iter().zip(&want).all(|(a, b)| same_bits_or_close(*a, *b, 0.0));
                    out.check(ok, || "fold/cli/value".into(), || json!({"fill": fname, "got": fmt(&gv), "want": fmt(&want)}));
                }
                (_, e) => out.fail(if r.panicked() { "fold/cli/panic" } else { "fold/cli/error" }, json!({"fill": fname, "code": r.code, "stderr": r.stderr, "parse": format!("{e:?}")})),
            }
            // the same fold delivered with -o onto a file that holds an older, LONGER result: the file must hold exactly what
            // stdout got (a folded spectrum with a stale tail is another spectrum, or none)
            if fname == "zero" && r.ok() && which == 0 {
                // stdout is dead from the first byte (a full device): the fold must end in a diagnosed error, not in success
                let d = cli::sfs_dead_stdout(ctx, &["fold", "--fill", fname, "--precision", "1"], &text, "enospc");
                out.check(!d.ok() && !d.panicked() && !d.stderr.trim().is_empty(), || "fold/cli/dead-sink".into(), || json!({"code": d.code, "stderr": d.stderr}));
            }
            if fname == "zero" && r.ok() {
                let (f, left) = cli::sfs_onto_stale_file(ctx, &["fold", "--fill", fname, "--precision", "1"], &text, "fold");
                out.check(f.ok() && !left && f.stdout == r.stdout, || "fold/cli/stale-destination".into(),
                    || json!({"code": f.code, "stderr": f.stderr, "file_len": f.stdout.len(), "stdout_len": r.stdout.len(), "also_on_stdout": left}));
            }
        }
        }
    }
    out
}

fn fmt(v: &[f64]) -> Vec<String> {
    v.iter().map(|x| format!("{x:e}")).collect()
}
