//! Family `container` (C12): the same records as vcf / vcf.gz / bcf / raw bcf, by path or stdin, with
//! different --threads, BGZF block layouts, repeated runs and environments: stdout and exit status
//! must be byte-identical and equal to what Create.tla expects.

use serde_json::{json, Value};

use crate::{cli, common::*, gen};

fn expected_stdout(case: &Value) -> Option<Vec<u8>> {
    if case["outcome"] != "done" || !usizes(&case["proj"]).is_empty() {
        return None;
    }
    let shape = usizes(&case["shape"]);
    let want: Vec<f64> = case["scs"].as_array().unwrap().iter().map(qnum).collect();
    Some(format!(
        "#SHAPE=<{}>\n{}\n",
        shape.iter().map(|x| x.to_string()).collect::<Vec<_>>().join("/"),
        want.iter().map(|x| format!("{}", *x as u64)).collect::<Vec<_>>().join(" ")
    ).into_bytes())
}

pub fn run(case: &Value, ctx: &Ctx) -> Outcome {
    let mut out = Outcome::default();
    if case["kind"] == "cohort" {
        return cohort(case, ctx);
    }
    let cols: Vec<String> = case["cols"].as_array().unwrap().iter().map(|c| c.as_str().unwrap().to_string()).collect();
    let recs = gen::recs_from_json(&case["recs"]);
    let id = case.to_string().bytes().fold(3u64, |h, b| h.wrapping_mul(1099511628211).wrapping_add(b as u64));
    let proj = usizes(&case["proj"]);
    out.nontrivial = Some(format!("{id:016x}"));
    let vcf = gen::vcf_text(&cols, &recs, false);
    let raw = gen::own_bcf(&cols, &recs);
    // containers x layouts
    let variants: Vec<(&str, Vec<u8>)> = vec![
        ("vcf", vcf.clone().into_bytes()),
        ("vcf.gz/one-block", gen::bgzf(&[vcf.as_bytes()])),
        ("vcf.gz/line-per-block", gen::bgzf_lines(vcf.as_bytes(), false)),
        ("vcf.gz/empty-blocks", gen::bgzf_lines(vcf.as_bytes(), true)),
        ("vcf.gz/97-byte-blocks", gen::bgzf_chunks(vcf.as_bytes(), 97)),
        ("bcf/raw", raw.clone()),
        ("bcf.gz/one-block", gen::bgzf(&[&raw])),
        ("bcf.gz/61-byte-blocks", gen::bgzf_chunks(&raw, 61)),
        ("bcf.gz/empty-first-block", { let mut b = gen::bgzf_block(&[]); b.extend(gen::bgzf_chunks(&raw, 300)); b }),
        // BGZF as written by something other than htslib: MTIME stamped, XFL = 2 / 4, OS = 3 (Unix), stored (level 0) blocks
        ("vcf.gz/foreign-header", gen::bgzf_chunks_with(vcf.as_bytes(), 500, 1_700_000_000, 2, 3, flate2::Compression::best())),
        ("bcf.gz/foreign-header", gen::bgzf_chunks_with(&raw, 200, 0, 4, 3, flate2::Compression::fast())),
        // an annotation-style header: 140 INFO keys in front of GT, whose dictionary index (141) needs a two-byte typed integer
        ("bcf/large-dictionary", gen::own_bcf_dict(&cols, &recs, 140)),
        ("bcf.gz/large-dictionary", gen::bgzf_chunks(&gen::own_bcf_dict(&cols, &recs, 140), 4000)),
        ("vcf.gz/stored-blocks", gen::bgzf_chunks_with(vcf.as_bytes(), 300, 0, 0, 0xff, flate2::Compression::none())),
    ];
    let mut base_args: Vec<String> = vec!["create".into()];
    if case["strict"].as_bool().unwrap() {
        base_args.push("--strict".into());
    }
    if !case["all"].as_bool().unwrap() {
        base_args.extend(["-s".into(), case["samples_arg"].as_str().unwrap().to_string()]);
    }
    if !proj.is_empty() {
        base_args.extend(["--project-shape".into(), proj.iter().map(|t| t.to_string()).collect::<Vec<_>>().join(","), "--precision".into(), "9".into()]);
    }
    let threads = ["1", "2", "3", "4", "8", "16"];
    let envs: [&[(&str, &str)]; 3] = [&[], &[("LANG", "de_DE.UTF-8"), ("TZ", "Pacific/Auckland"), ("HOME", "/nonexistent")], &[("LC_ALL", "C"), ("TZ", "UTC"), ("RUST_LOG", "trace")]];
    let want = expected_stdout(case);
    let want_ok = case["outcome"] == "done";
    let mut reference: Option<(Option<i32>, Vec<u8>)> = None;
    let mut runs = 0;
    for (vi, (label, bytes)) in variants.iter().enumerate() {
        // the file NAME must not matter: natural extensions, raw BCF named .bcf (as `bcftools view -Ou -o x.bcf` does),
        // and for some scenarios a misleading extension
        let ext = match (*label, id % 5) {
            ("vcf", 0) => "bcf",
            ("vcf", _) => "vcf",
            (l, 1) if l.starts_with("vcf.gz") => "bcf",
            (l, _) if l.starts_with("vcf.gz") => "vcf.gz",
            ("bcf/raw", 2) => "vcf",
            ("bcf/raw", _) => "bcf",
            (_, 3) => "vcf.gz",
            _ => "bcf",
        };
        let path = cli::scratch(ctx, &format!("c12_{id:016x}_{vi}.{ext}"), bytes);
        for rep in 0..2 {
            let via_stdin = (vi + rep) % 2 == 1;
            let t = threads[(vi * 2 + rep + (id % 6) as usize) % threads.len()];
            let mut args = base_args.clone();
            args.extend(["--threads".into(), t.into()]);
            if !via_stdin {
                args.push(path.clone());
            }
            let a: Vec<&str> = args.iter().map(|s| s.as_str()).collect();
            let r = cli::sfs_env(ctx, &a, if via_stdin { Some(bytes) } else { None }, envs[(vi + rep) % envs.len()]);
            runs += 1;
            let ctxd = || json!({"variant": label, "stdin": via_stdin, "threads": t, "args": args, "code": r.code, "stderr": r.stderr, "stdout": String::from_utf8_lossy(&r.stdout)});
            if r.panicked() {
                out.fail("container/panic", ctxd());
                continue;
            }
            out.check(r.ok() == want_ok, || format!("container/exit-status/{}", label.split('/').next().unwrap()), ctxd);
            if let Some(w) = &want {
                out.check(r.stdout == *w, || format!("container/stdout-vs-spec/{}", label.split('/').next().unwrap()), ctxd);
            }
            if !want_ok {
                out.check(r.stdout.is_empty(), || "container/partial-output".into(), ctxd);
            }
            match &reference {
                None => reference = Some((r.code, r.stdout.clone())),
                Some((c, s)) => out.check(*c == r.code && *s == r.stdout, || format!("container/differs-from-plain-vcf/{label}"), ctxd),
            }
        }
        // a real pipe whose first read returns one or two bytes (compressed containers only, a sample of cases)
        if (vi == 1 || vi == 6) && id % 4 == 0 {
            let mut args = base_args.clone();
            args.extend(["--threads".into(), "2".into()]);
            let a: Vec<&str> = args.iter().map(|s| s.as_str()).collect();
            let r = cli::sfs_delayed(ctx, &a, bytes, 1 + (id % 2) as usize);
            runs += 1;
            if let Some((c, s)) = &reference {
                out.check(*c == r.code && *s == r.stdout, || format!("container/delayed-pipe/{label}"),
                    || json!({"variant": label, "code": r.code, "stderr": r.stderr}));
            }
        }
        // ... and the same slow delivery when the PATH is a named pipe (`sfs create <(producer)`)
        if (vi == 1 || vi == 5 || vi == 6) && id % 4 == 1 {
            let mut args = base_args.clone();
            args.extend(["--threads".into(), "2".into()]);
            let a: Vec<&str> = args.iter().map(|s| s.as_str()).collect();
            let fifo = format!("{}/files/c12_{id:016x}_{vi}.fifo", ctx.work);
            if let Some(r) = cli::sfs_fifo(ctx, &a, bytes, 1 + (id % 2) as usize, &fifo) {
                runs += 1;
                if let Some((c, s)) = &reference {
                    out.check(*c == r.code && *s == r.stdout, || format!("container/slow-named-pipe/{label}"),
                        || json!({"variant": label, "code": r.code, "stderr": r.stderr}));
                }
            } else {
                out.tag("fifo-unavailable");
            }
        }
        let _ = std::fs::remove_file(&path);
    }
    // Inputs of the gzip family that are NOT what the BGZF reader expects (a plain gzip member; BGZF whose first block carries an
    // extra subfield next to BC; BGZF followed by garbage): whatever the tool makes of them, it makes the same of them for every
    // --threads value, by path and on stdin.  Nothing is expected of the outcome itself.
    if id % 3 == 0 {
        use std::io::Write;
        let plain_gz = { let mut e = flate2::write::GzEncoder::new(Vec::new(), flate2::Compression::default()); e.write_all(vcf.as_bytes()).unwrap(); e.finish().unwrap() };
        let extra_subfield = {
            // XLEN = 12: subfield "XY" (2 bytes of payload) in front of the BC subfield
            let mut b = gen::bgzf_block(vcf.as_bytes());
            let xy = [b'X', b'Y', 2, 0, 7, 7];
            b.splice(12..12, xy);
            b[10] = 12;
            let total = b.len() as u16 - 1;
            b[12 + 6 + 4] = (total & 0xff) as u8;
            b[12 + 6 + 5] = (total >> 8) as u8;
            b.extend(gen::bgzf_block(&[]));
            b
        };
        let trailing = { let mut b = gen::bgzf(&[vcf.as_bytes()]); b.extend_from_slice(b"garbage"); b };
        for (label, bytes) in [("plain-gzip", plain_gz), ("bgzf-extra-subfield", extra_subfield), ("bgzf-trailing-garbage", trailing)] {
            let path = cli::scratch(ctx, &format!("c12_{id:016x}_{label}.vcf.gz"), &bytes);
            let mut first: Option<(Option<i32>, Vec<u8>)> = None;
            for (k, t) in ["1", "2", "4", "16"].iter().enumerate() {
                let via_stdin = k % 2 == 1;
                let mut args = base_args.clone();
                args.extend(["--threads".into(), t.to_string()]);
                if !via_stdin {
                    args.push(path.clone());
                }
                let a: Vec<&str> = args.iter().map(|s| s.as_str()).collect();
                let r = cli::sfs(ctx, &a, if via_stdin { Some(&bytes) } else { None });
                runs += 1;
                if r.panicked() {
                    out.fail(format!("container/panic/{label}"), json!({"threads": t, "stderr": r.stderr.chars().take(300).collect::<String>()}));
                    continue;
                }
                match &first {
                    None => first = Some((r.code, r.stdout.clone())),
                    Some((c, so)) => out.check(*c == r.code && *so == r.stdout, || format!("container/threads-disagree/{label}"),
                        || json!({"threads": t, "stdin": via_stdin, "code": r.code, "first_code": c, "stderr": r.stderr.chars().take(200).collect::<String>()})),
                }
            }
            let _ = std::fs::remove_file(&path);
        }
    }
    out.tag(format!("runs:{runs}"));
    out
}

/// A large pseudo-random cohort: 64 KiB BGZF blocks, many threads, repeated runs.
/// Deterministic pseudo-random cohort: (column names, VCF text).
pub fn cohort_vcf(seed: u64, nsamples: usize, nrecs: usize, miss: u64, multi_pct: u64) -> (Vec<String>, String) {
    let cols: Vec<String> = (0..nsamples).map(|i| format!("s{i}")).collect();
    let mut state = seed.wrapping_mul(6364136223846793005).wrapping_add(1442695040888963407) | 1;
    let mut next = || { state ^= state << 13; state ^= state >> 7; state ^= state << 17; state };
    let mut text = gen::vcf_header(&cols);
    for r in 0..nrecs {
        let freq = next() % 100;
        let mut gt = std::collections::BTreeMap::new();
        for c in &cols {
            let g = if next() % 100 < miss { "./.".to_string() } else if next() % 100 < multi_pct { "1/2".to_string() } else {
                let a = (next() % 100 < freq) as u8;
                let b = (next() % 100 < freq) as u8;
                format!("{a}{}{b}", if next() % 2 == 0 { '/' } else { '|' })
            };
            gt.insert(c.clone(), g);
        }
        let rec = gen::Rec { contig: if r < nrecs / 2 { "chr1".into() } else { "chr2".into() }, pos: (r + 1) as u64, bad: false, nogt: false, short_alt: false, gt };
        text.push_str(&gen::vcf_record(&cols, &rec, r, false));
    }
    (cols, text)
}

fn cohort(case: &Value, ctx: &Ctx) -> Outcome {
    let mut out = Outcome::default();
    let seed = case["seed"].as_u64().unwrap();
    let nsamples = case["samples"].as_u64().unwrap() as usize;
    let nrecs = case["records"].as_u64().unwrap() as usize;
    let npops = case["pops"].as_u64().unwrap() as usize;
    let miss = case["missing_pct"].as_u64().unwrap();
    out.nontrivial = Some(format!("cohort/{seed}/{nsamples}/{nrecs}/{npops}"));
    let cols: Vec<String> = (0..nsamples).map(|i| format!("s{i}")).collect();
    let mut state = seed.wrapping_mul(6364136223846793005).wrapping_add(1442695040888963407);
    let mut next = || { state ^= state << 13; state ^= state >> 7; state ^= state << 17; state };
    let mut text = gen::vcf_header(&cols);
    let mut recs = Vec::with_capacity(nrecs);
    for r in 0..nrecs {
        let freq = next() % 100;
        let mut gt = std::collections::BTreeMap::new();
        for c in &cols {
            let g = if next() % 100 < miss { "./.".to_string() } else {
                let a = (next() % 100 < freq) as u8;
                let b = (next() % 100 < freq) as u8;
                format!("{a}{}{b}", if next() % 2 == 0 { '/' } else { '|' })
            };
            gt.insert(c.clone(), g);
        }
        let rec = gen::Rec { contig: if r < nrecs / 2 { "chr1".into() } else { "chr2".into() }, pos: (r + 1) as u64, bad: false, nogt: false, short_alt: false, gt };
        text.push_str(&gen::vcf_record(&cols, &rec, r, false));
        recs.push(rec);
    }
    let arg = cols.iter().enumerate().map(|(i, c)| format!("{c}=P{}", i % npops)).collect::<Vec<_>>().join(",");
    let proj: String = (0..npops).map(|_| "3".to_string()).collect::<Vec<_>>().join(",");
    let raw = gen::own_bcf(&cols, &recs);
    let variants: Vec<(&str, Vec<u8>)> = vec![
        ("vcf", text.clone().into_bytes()),
        ("vcf.gz/64k", gen::bgzf_chunks(text.as_bytes(), 65000)),
        ("vcf.gz/4k", gen::bgzf_chunks(text.as_bytes(), 4096)),
        ("bcf.gz/64k", gen::bgzf_chunks(&raw, 65000)),
        ("bcf/raw", raw),
    ];
    let mut reference: Option<Vec<u8>> = None;
    for (vi, (label, bytes)) in variants.iter().enumerate() {
        for (ti, t) in ["1", "4", "16"].iter().enumerate() {
            let r = cli::sfs(ctx, &["create", "-s", &arg, "--project-shape", &proj, "--precision", "9", "--threads", t], Some(bytes));
            if !r.ok() {
                out.fail("container/cohort/run-failed", json!({"variant": label, "threads": t, "code": r.code, "stderr": r.stderr.chars().take(400).collect::<String>()}));
                continue;
            }
            match &reference {
                None => reference = Some(r.stdout.clone()),
                Some(s) => out.check(*s == r.stdout, || format!("container/cohort/differs/{label}"), || json!({"variant": label, "threads": t, "vi": vi, "ti": ti})),
            }
        }
    }
    out
}
