//! Family `arraymem` (C19, the mutating half of the array API): replays write histories of
//! ArrayMem.tla on sfs_core::Array<f64> and reads the whole array back after every step
//! through every read path the crate offers.

use serde_json::{json, Value};
use sfs_core::array::{Array, Axis};

use crate::common::*;

fn f64s(v: &Value) -> Vec<f64> {
    v.as_array().map(|a| a.iter().map(|x| x.as_f64().unwrap_or(f64::NAN)).collect()).unwrap_or_default()
}

fn unflat(shape: &[usize], mut p: usize) -> Vec<usize> {
    let mut idx = vec![0; shape.len()];
    for j in (0..shape.len()).rev() {
        idx[j] = p % shape[j];
        p /= shape[j];
    }
    idx
}

/// Everything the read API shows, compared with the expected flat contents.
fn read_back(array: &Array<f64>, shape: &[usize], want: &[f64]) -> Result<(), (String, Value)> {
    let bad = |what: &str, detail: Value| Err((what.to_string(), detail));
    if array.as_slice() != want {
        return bad("as_slice", json!({"got": array.as_slice(), "want": want}));
    }
    if array.iter().copied().collect::<Vec<_>>() != want {
        return bad("iter", json!({"want": want}));
    }
    if array.elements() != want.len() || array.dimensions() != shape.len() || array.shape().as_ref() != shape {
        return bad("shape", json!({"elements": array.elements(), "dimensions": array.dimensions()}));
    }
    // indexing at every index of iter_indices, in order
    let mut visited = 0;
    for (p, idx) in array.iter_indices().enumerate() {
        visited += 1;
        if p >= want.len() || idx != unflat(shape, p) {
            return bad("iter_indices", json!({"position": p, "index": idx}));
        }
        if array.get(&idx).copied() != Some(want[p]) {
            return bad("get", json!({"index": idx, "got": array.get(&idx), "want": want[p]}));
        }
        if array[&idx] != want[p] {
            return bad("index", json!({"index": idx, "got": array[&idx], "want": want[p]}));
        }
    }
    if visited != want.len() {
        return bad("iter_indices-count", json!({"visited": visited, "cells": want.len()}));
    }
    // every axis view, through each way of obtaining it
    for a in 0..shape.len() {
        let mut rest: Vec<usize> = shape.to_vec();
        rest.remove(a);
        let cells: usize = rest.iter().product();
        let mut sum = vec![0.0; cells];
        let from_iter_axis: Vec<Vec<f64>> = array.iter_axis(Axis(a)).map(|v| v.iter().copied().collect()).collect();
        if from_iter_axis.len() != shape[a] {
            return bad("iter_axis-count", json!({"axis": a, "views": from_iter_axis.len()}));
        }
        for i in 0..shape[a] {
            let expect: Vec<f64> = (0..want.len()).filter(|&p| unflat(shape, p)[a] == i).map(|p| want[p]).collect();
            for (s, e) in sum.iter_mut().zip(&expect) {
                *s += e;
            }
            let Some(view) = array.get_axis(Axis(a), i) else {
                return bad("get_axis-none", json!({"axis": a, "position": i}));
            };
            let got: Vec<f64> = view.iter().copied().collect();
            if got != expect {
                return bad("view-iter", json!({"axis": a, "position": i, "got": got, "want": expect}));
            }
            let owned = view.to_array();
            if owned.as_slice() != expect || owned.shape().as_ref() != rest {
                return bad("view-to_array", json!({"axis": a, "position": i, "got": owned.as_slice(), "want": expect}));
            }
            let via_index: Vec<f64> = array.index_axis(Axis(a), i).iter().copied().collect();
            if via_index != expect {
                return bad("index_axis", json!({"axis": a, "position": i, "got": via_index, "want": expect}));
            }
            if from_iter_axis[i] != expect {
                return bad("iter_axis", json!({"axis": a, "position": i, "got": from_iter_axis[i], "want": expect}));
            }
        }
        let summed = array.sum(Axis(a));
        if summed.as_slice() != sum || summed.shape().as_ref() != rest {
            return bad("sum", json!({"axis": a, "got": summed.as_slice(), "want": sum}));
        }
    }
    let copy = array.clone();
    if copy != *array || copy.as_slice() != want {
        return bad("clone-eq", json!({}));
    }
    Ok(())
}

pub fn run(case: &Value, _ctx: &Ctx) -> Outcome {
    let mut out = Outcome::default();
    let shape = usizes(&case["shape"]);
    let ctor = case["ctor"].as_str().unwrap().to_string();
    let n: usize = shape.iter().product();
    let h = case["h"].as_array().cloned().unwrap_or_default();
    out.tag(format!("ctor:{ctor}"));
    if n > 1 && !h.is_empty() {
        out.nontrivial = Some(format!("{shape:?}/{ctor}/{}", h.iter().map(|e| e["o"].to_string()).collect::<Vec<_>>().join(";")));
    }
    let ramp = |k: usize| (0..k).map(|v| v as f64).collect::<Vec<f64>>();
    let built: Result<Result<Array<f64>, String>, String> = guarded(|| match ctor.as_str() {
        "new" => Array::new(ramp(n), shape.clone()).map_err(|e| e.to_string()),
        "from_iter" => Array::from_iter(ramp(n), shape.clone()).map_err(|e| e.to_string()),
        "from_element" => Ok(Array::from_element(7.0, shape.clone())),
        "from_zeros" => Ok(Array::from_zeros(shape.clone())),
        "new_short" => Array::new(ramp(n - 1), shape.clone()).map_err(|e| e.to_string()),
        "new_long" => Array::new(ramp(n + 1), shape.clone()).map_err(|e| e.to_string()),
        "from_iter_short" => Array::from_iter(ramp(n - 1), shape.clone()).map_err(|e| e.to_string()),
        other => panic!("harness: unknown constructor {other}"),
    });
    let fails = matches!(ctor.as_str(), "new_short" | "new_long" | "from_iter_short");
    let mut array = match built {
        Err(m) => {
            out.fail(format!("arraymem/{ctor}/panic"), json!({"panic": m}));
            return out;
        }
        Ok(Err(e)) => {
            // refusing a fitting construction makes every later statement about indexing empty
            out.check(fails, || format!("arraymem/{ctor}/refused"), || json!({"error": e}));
            return out;
        }
        Ok(Ok(a)) => a,
    };
    if fails {
        // data that does not fit the shape was accepted: the index <-> position bijection is gone as soon as
        // some in-range index has no element (or some element no index)
        let last = unflat(&shape, n - 1);
        let broken = guarded(|| array.get(&last).is_none() || array.as_slice().len() != n).unwrap_or(true);
        out.check(!broken, || format!("arraymem/{ctor}/misfit-accepted"), || json!({"shape": shape, "len": array.as_slice().len()}));
        out.tag("ctor-accepted-misfit");
        return out;
    }
    let init = f64s(&case["init"]);
    match guarded(|| read_back(&array, &shape, &init)) {
        Ok(Ok(())) => out.checks += 1,
        Ok(Err((what, d))) => { out.fail(format!("arraymem/{ctor}/initial/{what}"), d); return out; }
        Err(m) => { out.fail(format!("arraymem/{ctor}/initial/panic"), json!({"panic": m})); return out; }
    }
    for (k, e) in h.iter().enumerate() {
        let o = &e["o"];
        let op = o["op"].as_str().unwrap();
        let v = e["v"].as_f64().unwrap();
        let idx = if o["idx"].is_array() { usizes(&o["idx"]) } else { Vec::new() };
        let res: Result<&str, String> = guarded(std::panic::AssertUnwindSafe(|| match op {
            "get_mut" => match array.get_mut(&idx) {
                Some(cell) => { *cell = v; "some" }
                None => "none",
            },
            "index_mut_via_get" => { array[&idx] = v; "some" }
            "slice" => { array.as_mut_slice()[o["p"].as_u64().unwrap() as usize] = v; "done" }
            "fill" => { array.iter_mut().for_each(|x| *x = v); "done" }
            "iter_mut_add" => { array.iter_mut().for_each(|x| *x += v); "done" }
            other => panic!("harness: unknown op {other}"),
        }));
        match res {
            Err(m) => { out.fail(format!("arraymem/{op}/panic"), json!({"step": k, "op": o, "panic": m})); return out; }
            Ok(r) => out.check(r == e["res"].as_str().unwrap(), || format!("arraymem/{op}/result"),
                               || json!({"step": k, "op": o, "got": r, "want": e["res"]})),
        }
        let want = f64s(&e["mem"]);
        match guarded(|| read_back(&array, &shape, &want)) {
            Ok(Ok(())) => out.checks += 1,
            Ok(Err((what, d))) => { out.fail(format!("arraymem/{op}/then/{what}"), json!({"step": k, "op": o, "detail": d})); return out; }
            Err(m) => { out.fail(format!("arraymem/{op}/then/panic"), json!({"step": k, "op": o, "panic": m})); return out; }
        }
    }
    out
}
