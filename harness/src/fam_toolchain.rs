//! Family `toolchain` (C07): chains of real sfs processes over files and pipes, library round trips,
//! and the 15-significant-digit text -> npy -> text identity.

use serde_json::{json, Value};
use sfs_core::{
    spectrum::io::{read, write, Format},
    Input, Scs,
};

use crate::{cli, common::*, gen};

const SEED_SHAPE: [usize; 2] = [5, 3];

fn seed_values() -> Vec<f64> {
    (0..15).map(|i| ((i * 7919 + 13) % 1000) as f64 / 7.0 + if i % 4 == 0 { 1e-7 } else { 0.0 }).collect()
}

fn big_values() -> Vec<f64> {
    // newline bytes only near the start: a line-buffered stdout then holds a long tail without any newline
    (0..300).map(|i| match i { 0 => 3.25, 7 => 2053.0, _ => ((i * 37 + 11) % 1000) as f64 / 8.0 + 0.0625 }).collect()
}

fn huge_values() -> Vec<f64> {
    (0..257 * 257).map(|i| ((i * 37 + 11) % 1000) as f64 / 8.0 + 0.0625 + if i % 4099 == 0 { 1e-7 } else { 0.0 }).collect()
}

fn seed_vcf() -> String {
    let cols: Vec<String> = ["a", "b", "c"].iter().map(|s| s.to_string()).collect();
    let rows = [["0/1", "1/1", "0/0"], ["0/0", "0/1", "1/1"], ["1/1", "1/1", "0/1"], ["0/1", "0/0", "0/0"], ["0/0", "0/0", "0/1"], ["1|0", "0|1", "1|1"]];
    let recs: Vec<gen::Rec> = rows.iter().enumerate().map(|(i, r)| gen::Rec {
        contig: "chr1".into(), pos: (i + 1) as u64, bad: false, nogt: false, short_alt: false,
        gt: cols.iter().cloned().zip(r.iter().map(|s| s.to_string())).collect(),
    }).collect();
    gen::vcf_text(&cols, &recs, false)
}

fn parse_any(bytes: &[u8]) -> Result<(Vec<usize>, Vec<f64>, &'static str), String> {
    if bytes.starts_with(b"\x93NUMPY") {
        cli::parse_npy(bytes).map(|(s, v)| (s, v, "npy"))
    } else if bytes.starts_with(b"#SHAPE") {
        cli::parse_text(bytes).map(|(s, v)| (s, v, "text"))
    } else {
        Err(format!("output starts with neither magic: {:?}", &bytes[..bytes.len().min(8)]))
    }
}

pub fn run(case: &Value, ctx: &Ctx) -> Outcome {
    let mut out = Outcome::default();
    let kind = case["kind"].as_str().unwrap();
    out.tag(format!("kind:{kind}"));
    let id = case.to_string().bytes().fold(7u64, |h, b| h.wrapping_mul(131).wrapping_add(b as u64));
    match kind {
        "chain" => {
            let steps = case["steps"].as_array().unwrap();
            let bound = qnum(&case["bound"]);
            let names: Vec<String> = steps.iter().map(|s| format!("{}:{}:{}:{}", s["tool"].as_str().unwrap(), s["fmt"].as_str().unwrap(), s["prec"], s["via"].as_str().unwrap())).collect();
            out.nontrivial = Some(names.join(">"));
            // the artefact in flight: either bytes (pipe) or a path (file)
            let mut in_flight: Option<Vec<u8>> = None;
            let mut in_path: Option<String> = None;
            let mut in_fifo = false;
            let mut x0: Vec<f64> = Vec::new();
            let mut shape: Vec<usize> = Vec::new();
            let mut files: Vec<String> = Vec::new();
            let mut last_stdout: Vec<u8> = Vec::new();
            for (si, s) in steps.iter().enumerate() {
                let tool = s["tool"].as_str().unwrap();
                let fmt = s["fmt"].as_str().unwrap();
                let prec = s["prec"].as_u64().unwrap().to_string();
                let via = s["via"].as_str().unwrap();
                let outfile = format!("{}/files/chain_{id:016x}_{si}.{}", ctx.work, if fmt == "npy" { "npy" } else { "sfs" });
                let produced: Vec<u8>;
                if si == 0 {
                    // producers
                    match tool {
                        "create" => {
                            let vcf = seed_vcf();
                            let r = cli::sfs(ctx, &["create", "-s", "a=A,b=A,c=B"], Some(vcf.as_bytes()));
                            if !r.ok() {
                                out.fail("toolchain/chain/create-failed", json!({"stderr": r.stderr}));
                                return out;
                            }
                            produced = r.stdout;
                        }
                        "seedtext" => produced = cli::write_text(&SEED_SHAPE, &seed_values(), 17),
                        // large spectra (more than a stdout buffer) whose doubles contain newline bytes (3.25, 2053.0)
                        "bigtext" => produced = cli::write_text(&[15, 20], &big_values(), 17),
                        "bignpy" => produced = cli::write_npy(&[15, 20], &big_values()),
                        // more than 2^16 cells
                        "hugetext" => produced = cli::write_text(&[257, 257], &huge_values(), 17),
                        "hugenpy" => produced = cli::write_npy(&[257, 257], &huge_values()),
                        _ => produced = cli::write_npy(&SEED_SHAPE, &seed_values()),
                    }
                    match parse_any(&produced) {
                        Ok((sh, v, _)) => {
                            shape = sh;
                            x0 = v;
                        }
                        Err(e) => {
                            out.fail("toolchain/chain/producer-unparsable", json!({"error": e}));
                            return out;
                        }
                    }
                } else {
                    let mut args: Vec<String> = vec![tool.to_string()];
                    match tool {
                        "view" => {
                            args.extend(["-O".into(), fmt.into(), "--precision".into(), prec.clone()]);
                        }
                        "fold" => args.extend(["--precision".into(), prec.clone()]),
                        _ => args.extend(["-s".into(), "sum".into(), "--precision".into(), prec.clone()]),
                    }
                    if via == "file" && tool != "stat" {
                        if s["stale"].as_bool().unwrap_or(false) {
                            // the destination already exists with older, longer content (a previous, larger spectrum)
                            let old = if fmt == "npy" { cli::write_npy(&[40, 40], &vec![7.0; 1600]) } else { cli::write_text(&[40, 40], &vec![7.0; 1600], 6) };
                            std::fs::create_dir_all(format!("{}/files", ctx.work)).ok();
                            std::fs::write(&outfile, old).expect("write stale file");
                        }
                        args.extend(["-o".into(), outfile.clone()]);
                    }
                    if let Some(p) = &in_path {
                        args.push(p.clone());
                    }
                    let a: Vec<&str> = args.iter().map(|s| s.as_str()).collect();
                    let r = if in_fifo {
                        // the input is a named pipe given by PATH (as in `sfs view <(sfs create ...)`)
                        let fifo = format!("{}/files/chain_{id:016x}_{si}.fifo", ctx.work);
                        std::fs::create_dir_all(format!("{}/files", ctx.work)).ok();
                        let data = in_flight.clone().unwrap_or_default();
                        // the artefact arrives in two bursts (the second once the reader has taken the first): a reader must go on to
                        // the end of the stream, not to the first short read
                        match cli::sfs_fifo(ctx, &a, &data, data.len() / 2, &fifo) {
                            Some(r) => r,
                            None => { out.tag("fifo-unavailable"); cli::sfs(ctx, &a, in_flight.as_deref()) }
                        }
                    } else if in_flight.is_some() && (id as usize + si) % 3 == 0 {
                        let data = in_flight.clone().unwrap_or_default();
                        cli::sfs_delayed(ctx, &a, &data, data.len() / 3)
                    } else {
                        cli::sfs(ctx, &a, in_flight.as_deref())
                    };
                    if r.ok() && via != "file" && tool != "stat" && si == 1 && in_path.is_none() && id % 13 == 0 {
                        // the same step with a stdout that is dead from the first byte: nothing is delivered, so the step must
                        // not report success (a writer that leaves its last bytes to a destructor does)
                        if let Some(data) = in_flight.as_deref() {
                            let d = cli::sfs_dead_stdout(ctx, &a, data, "enospc");
                            out.check(!d.ok() && !d.panicked() && !d.stderr.trim().is_empty(), || format!("toolchain/chain/{tool}-dead-sink"), || json!({"args": args, "code": d.code, "stderr": d.stderr}));
                        }
                    }
                    if !r.ok() {
                        out.fail(format!("toolchain/chain/{tool}-rejected-own-output{}", if r.panicked() { "-panic" } else { "" }),
                            json!({"step": si, "args": args, "code": r.code, "stderr": r.stderr, "chain": names}));
                        break;
                    }
                    out.check(true, String::new, || Value::Null);
                    last_stdout = r.stdout.clone();
                    if tool == "stat" {
                        break;
                    }
                    produced = if via == "file" {
                        out.check(r.stdout.is_empty(), || "toolchain/chain/stdout-and-file".into(), || json!({"args": args}));
                        match std::fs::read(&outfile) {
                            Ok(b) => b,
                            Err(e) => {
                                out.fail("toolchain/chain/output-file-missing", json!({"error": e.to_string(), "args": args}));
                                break;
                            }
                        }
                    } else {
                        r.stdout
                    };
                    if fmt == "text" {
                        // ToolChain.tla: a text artefact CARRIES the precision of the step that wrote it (art.prec) - every finite
                        // value is printed with exactly that many decimals (fewer cannot be within half a unit of the last one)
                        let want_dec: usize = prec.parse().unwrap_or(0);
                        let body = String::from_utf8_lossy(&produced);
                        let bad = body.lines().skip(1).flat_map(|l| l.split_whitespace()).find(|t| {
                            let finite = t.parse::<f64>().map_or(false, |v| v.is_finite());
                            finite && t.split_once('.').map_or(0, |(_, d)| d.len()) != want_dec
                        }).map(|t| t.to_string());
                        out.check(bad.is_none(), || format!("toolchain/chain/{tool}-decimals"), || json!({"step": si, "args": args, "token": bad, "requested": want_dec}));
                    }
                    if via != "file" && si == 1 && id % 31 == 0 && produced.len() > 1 {
                        // the same step into a sink that takes everything BUT THE LAST BYTE (stdout redirected to a file under a size
                        // limit): the artefact is incomplete, so the step must not report success - whichever layer held that byte
                        if let Some(data) = in_flight.as_deref() {
                            let sink = format!("{}/files/chain_{id:016x}_{si}.lastbyte", ctx.work);
                            std::fs::create_dir_all(format!("{}/files", ctx.work)).ok();
                            let (d, written) = cli::sfs_fsize(ctx, &a, data, Some(produced.len() as u64 - 1), &sink, true);
                            out.check(!d.ok() && !d.panicked(), || format!("toolchain/chain/{tool}-last-byte-lost"),
                                || json!({"args": args, "code": d.code, "stderr": d.stderr, "delivered": written.len(), "complete": produced.len()}));
                        }
                    }
                    match parse_any(&produced) {
                        Ok((sh, _, f)) => {
                            out.check(sh == shape, || "toolchain/chain/shape-changed".into(), || json!({"step": si, "got": sh, "want": shape}));
                            out.check(f == fmt, || "toolchain/chain/wrong-format-written".into(), || json!({"step": si, "got": f, "want": fmt}));
                        }
                        Err(e) => {
                            out.fail("toolchain/chain/output-unparsable", json!({"step": si, "error": e, "chain": names}));
                            break;
                        }
                    }
                }
                // hand over
                if via == "file" {
                    if si == 0 {
                        std::fs::create_dir_all(format!("{}/files", ctx.work)).ok();
                        std::fs::write(&outfile, &produced).expect("write");
                    }
                    files.push(outfile.clone());
                    in_path = Some(outfile);
                    in_flight = None;
                    in_fifo = false;
                } else {
                    in_flight = Some(produced);
                    in_path = None;
                    in_fifo = via == "fifo";
                }
            }
            // final values against exact expectation
            let folds = case["folds"].as_u64().unwrap();
            let mut want = x0.clone();
            for _ in 0..folds {
                want = Scs::new(want.clone(), shape.clone()).unwrap().fold().into_spectrum(f64::NAN).inner().as_slice().to_vec();
            }
            let last_tool = steps.last().unwrap()["tool"].as_str().unwrap();
            if last_tool == "stat" && steps.len() > 1 {
                let s = String::from_utf8_lossy(&last_stdout).trim().to_string();
                let got: f64 = s.parse().unwrap_or(f64::NEG_INFINITY);
                let sum: f64 = want.iter().sum();
                let tol = bound * want.len() as f64 + 1e-6;
                out.check((sum.is_nan() && got.is_nan()) || (got - sum).abs() <= tol, || "toolchain/chain/stat-sum".into(), || json!({"got": s, "want": sum, "tol": tol, "chain": names}));
            } else if steps.len() > 1 {
                let bytes = match (&in_flight, &in_path) {
                    (Some(b), _) => b.clone(),
                    (_, Some(p)) => std::fs::read(p).unwrap_or_default(),
                    _ => Vec::new(),
                };
                if let Ok((_, v, _)) = parse_any(&bytes) {
                    let ok = v.len() == want.len() && v.iter().zip(&want).all(|(g, w)| (g.is_nan() && w.is_nan()) || (g - w).abs() <= bound + 1e-9 * w.abs().max(1.0) * if bound > 0.0 { 1.0 } else { 0.0 } + if bound == 0.0 { 0.0 } else { 0.0 });
                    out.check(ok, || "toolchain/chain/values-drifted".into(), || json!({"got": v, "want": want, "bound": bound, "chain": names}));
                }
            }
            for f in files {
                let _ = std::fs::remove_file(f);
            }
        }
        "roundtrip" => {
            let shape = usizes(&case["shape"]);
            let fmt = case["fmt"].as_str().unwrap();
            let prec = case["prec"].as_u64().unwrap() as usize;
            let half = qnum(&case["half_unit"]);
            let n: usize = shape.iter().product();
            out.nontrivial = Some(format!("{shape:?}/{fmt}/{prec}"));
            let pool = [0.0, 1.0, -1.0, 0.5, 1.0 / 3.0, -2.0 / 3.0, 1e-7, 123456.789, 1e15 + 0.3, 1e300, -1e300, 5e-324, -2.2e-308, -0.0,
                f64::from_bits(0x7ff8_0000_dead_beef), f64::INFINITY, f64::NEG_INFINITY, 0.000_000_5, 0.999_999_999_999_999_9, 2.5, 3.5, 1e22, 0.125];
            let values: Vec<f64> = (0..n).map(|i| pool[(i * 5 + prec) % pool.len()]).collect();
            let scs = Scs::new(values.clone(), shape.clone()).unwrap();
            let format = if fmt == "npy" { Format::Npy } else { Format::Text };
            let mut bytes = Vec::new();
            let w = guarded(|| write::Builder::default().set_format(format).set_precision(prec).write(&mut bytes, &scs).map_err(|e| e.to_string()));
            if !matches!(w, Ok(Ok(()))) {
                out.fail("toolchain/roundtrip/write-failed", json!({"result": format!("{w:?}")}));
                return out;
            }
            out.check(bytes.starts_with(if fmt == "npy" { b"\x93NUMPY" } else { b"#SHAPE" }), || "toolchain/roundtrip/head".into(), || json!({"fmt": fmt}));
            let path = cli::scratch(ctx, &format!("rt_{id:016x}"), &bytes);
            let r = guarded(|| read::Builder::default().set_input(Input::Path(path.clone().into())).read().map(|s| (s.shape().as_ref().to_vec(), s.inner().as_slice().to_vec())).map_err(|e| e.to_string()));
            let _ = std::fs::remove_file(&path);
            match r {
                Ok(Ok((gs, gv))) => {
                    out.check(gs == shape, || "toolchain/roundtrip/shape".into(), || json!({"got": gs, "want": shape}));
                    let ok = gv.len() == values.len() && gv.iter().zip(&values).all(|(g, v)| {
                        if fmt == "npy" {
                            g.to_bits() == v.to_bits()
                        } else if v.is_finite() {
                            (g - v).abs() <= half * (1.0 + 1e-12) + 2.0 * f64::EPSILON * v.abs()
                        } else {
                            (g.is_nan() && v.is_nan()) || g == v
                        }
                    });
                    out.check(ok, || format!("toolchain/roundtrip/values-{fmt}"), || json!({"prec": prec, "got": gv.iter().map(|x| format!("{x:e}")).collect::<Vec<_>>(), "want": values.iter().map(|x| format!("{x:e}")).collect::<Vec<_>>()}));
                }
                other => out.fail("toolchain/roundtrip/read-failed", json!({"result": format!("{other:?}"), "fmt": fmt, "prec": prec, "shape": shape})),
            }
        }
        "named" => {
            let fmt = case["fmt"].as_str().unwrap();
            let name = case["name"].as_str().unwrap();
            let consumer = case["consumer"].as_str().unwrap();
            out.nontrivial = Some(format!("{fmt}/{name}/{consumer}"));
            // the artefact is written by the tool itself, straight to that name
            let dir = format!("{}/files/named_{}_{id:016x}", ctx.work, std::process::id());
            std::fs::create_dir_all(&dir).expect("mkdir");
            // the tool runs INSIDE that directory and is given the bare name (a file may be called `-`)
            let path = name.to_string();
            let seed = cli::write_npy(&SEED_SHAPE, &seed_values());
            let w = cli::sfs_in_dir(ctx, &["view", "-O", fmt, "--precision", "6", "-o", &path], Some(&seed), &dir);
            if !w.ok() {
                out.fail("toolchain/named/write-failed", json!({"name": name, "fmt": fmt, "stderr": w.stderr}));
            } else {
                let args: Vec<&str> = match consumer { "view" => vec!["view", "-O", "npy", &path], "fold" => vec!["fold", &path], _ => vec!["stat", "-s", "sum", &path] };
                let r = cli::sfs_in_dir(ctx, &args, None, &dir);
                out.check(std::path::Path::new(&format!("{dir}/{name}")).is_file(), || "toolchain/named/output-file-missing".into(), || json!({"name": name}));
                out.check(r.ok() && !r.stdout.is_empty(), || format!("toolchain/named/{consumer}-rejected-own-output"), || json!({"name": name, "fmt": fmt, "code": r.code, "stderr": r.stderr}));
                if r.ok() && consumer == "view" {
                    let ok = cli::parse_npy(&r.stdout).map(|(s, v)| s == SEED_SHAPE.to_vec() && v.iter().zip(seed_values()).all(|(g, x)| (g - x).abs() <= 0.5e-6 + 1e-12)).unwrap_or(false);
                    out.check(ok, || "toolchain/named/values".into(), || json!({"name": name, "fmt": fmt}));
                }
            }
            let _ = std::fs::remove_dir_all(&dir);
        }
        "digits" => {
            let m = case["m"].as_str().unwrap();
            let e = case["e"].as_u64().unwrap() as usize;
            let (int, frac) = if e >= m.len() { (format!("{m}{}", "0".repeat(e - m.len())), String::new()) } else { (if e == 0 { "0".to_string() } else { m[..e].to_string() }, m[e..].to_string()) };
            // canonical printing: no superfluous leading zeros in the integer part
            let int = { let t = int.trim_start_matches('0'); if t.is_empty() { "0".to_string() } else { t.to_string() } };
            let p = frac.len();
            let val = if p == 0 { int.clone() } else { format!("{int}.{frac}") };
            let text = format!("#SHAPE=<2>\n{val} -{val}\n");
            out.nontrivial = Some(val.clone());
            let a = cli::sfs(ctx, &["view", "-O", "npy"], Some(text.as_bytes()));
            if !a.ok() {
                out.fail("toolchain/digits/to-npy-failed", json!({"stderr": a.stderr, "text": text}));
                return out;
            }
            let ps = p.to_string();
            let b = cli::sfs(ctx, &["view", "--precision", &ps], Some(&a.stdout));
            out.check(b.ok() && b.stdout == text.as_bytes(), || "toolchain/digits/text-npy-text".into(), || json!({"want": text, "got": String::from_utf8_lossy(&b.stdout), "stderr": b.stderr}));
        }
        other => out.fail("toolchain/unknown-kind", json!(other)),
    }
    out
}
