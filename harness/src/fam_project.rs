//! Family `project` (C03): operator matrices, rejected targets and large one-axis rows of Project.tla.

use rand::{rngs::StdRng, Rng, SeedableRng};
use serde_json::{json, Value};
use sfs_core::Scs;

use crate::{cli, common::*, symbolic::Symbolic};

fn project(x: &[f64], from: &[usize], to: &[usize]) -> Result<Result<(Vec<usize>, Vec<f64>), String>, String> {
    guarded(|| {
        Scs::new(x.to_vec(), from.to_vec())
            .unwrap()
            .project(to.to_vec())
            .map(|s| (s.shape().as_ref().to_vec(), s.inner().as_slice().to_vec()))
            .map_err(|e| e.to_string())
    })
}

fn vec_close(a: &[f64], b: &[f64], tol: f64) -> bool {
    a.len() == b.len() && a.iter().zip(b).all(|(x, y)| close(*x, *y, tol))
}

pub fn run(case: &Value, ctx: &Ctx) -> Outcome {
    let mut out = Outcome::default();
    let kind = case["kind"].as_str().unwrap();
    out.tag(format!("kind:{kind}"));
    match kind {
        "grid" => {
            let from = usizes(&case["from"]);
            let to = usizes(&case["to"]);
            let sym = Symbolic::parse(&case["result"]);
            let n0: usize = from.iter().product();
            if from != to {
                out.nontrivial = Some(format!("{from:?}->{to:?}"));
            }
            out.tag(format!("dims:{}", from.len()));
            let mut rng = StdRng::seed_from_u64(ctx.seed ^ (n0 as u64 * 31 + to.iter().sum::<usize>() as u64));
            // every coefficient of the operator: basis vectors
            for p in 0..n0 {
                let mut e = vec![0.0; n0];
                e[p] = 1.0;
                let want = sym.eval(&e, 0.0);
                match project(&e, &from, &to) {
                    Ok(Ok((gs, gv))) => out.check(gs == to && vec_close(&gv, &want, 1e-9),
                        || "project/grid/coefficient".into(),
                        || json!({"basis": p, "got": gv, "want": want})),
                    Ok(Err(e)) => out.fail("project/grid/rejected-admissible", json!({"error": e})),
                    Err(m) => out.fail("project/grid/panic", json!({"panic": m})),
                }
            }
            // linearity, finiteness, sign and mass on other vectors
            let xs: Vec<(&str, Vec<f64>)> = vec![
                ("real", (0..n0).map(|_| rng.gen::<f64>() * 100.0).collect()),
                ("signed", (0..n0).map(|_| rng.gen::<f64>() * 2.0 - 1.0).collect()),
                ("huge", (0..n0).map(|p| if p % 2 == 0 { 1e300 } else { 3e-300 }).collect()),
                // every entry far below machine epsilon (a rescaled spectrum); compared purely relatively
                ("tiny", (0..n0).map(|_| (1.0 + rng.gen::<f64>() * 100.0) * 2f64.powi(-60)).collect()),
            ];
            for (name, x) in &xs {
                let want = sym.eval(x, 0.0);
                match project(x, &from, &to) {
                    Ok(Ok((_, gv))) => {
                        let ok = if *name == "tiny" {
                            gv.len() == want.len() && gv.iter().zip(&want).all(|(g, w)| g == w || (g - w).abs() <= 1e-9 * g.abs().max(w.abs()))
                        } else {
                            vec_close(&gv, &want, 1e-9)
                        };
                        out.check(ok, || format!("project/grid/linear-{name}"), || json!({"x": x, "got": gv, "want": want}));
                        out.check(gv.iter().all(|v| v.is_finite()), || "project/grid/non-finite".into(), || json!({"x": x, "got": gv.iter().map(|v| v.to_string()).collect::<Vec<_>>()}));
                        if *name == "real" {
                            out.check(gv.iter().all(|v| *v >= 0.0), || "project/grid/negative".into(), || json!({"got": gv}));
                            out.check(close(gv.iter().sum::<f64>(), x.iter().sum::<f64>(), 1e-9), || "project/grid/mass".into(), || json!({"got": gv}));
                        }
                    }
                    Ok(Err(e)) => out.fail("project/grid/rejected-admissible", json!({"error": e})),
                    Err(m) => out.fail("project/grid/panic", json!({"panic": m})),
                }
            }
            let x = &xs[0].1;
            let want = sym.eval(x, 0.0);
            if from == to {
                if let Ok(Ok((_, gv))) = project(x, &from, &to) {
                    out.check(gv == *x, || "project/grid/identity".into(), || json!({"x": x, "got": gv}));
                }
            }
            // two steps through an intermediate shape
            let mid: Vec<usize> = from.iter().zip(&to).map(|(f, t)| (f + t + 1) / 2).collect();
            if mid != from && mid != to {
                let two = project(x, &from, &mid).and_then(|r| match r {
                    Ok((_, v)) => project(&v, &mid, &to),
                    Err(e) => Ok(Err(e)),
                });
                match two {
                    Ok(Ok((_, gv))) => out.check(vec_close(&gv, &want, 1e-9), || "project/grid/two-step".into(), || json!({"mid": mid, "got": gv, "want": want})),
                    other => out.fail("project/grid/two-step-error", json!(format!("{other:?}"))),
                }
            }
            // the binary, both spellings
            let text = cli::write_text(&from, x, 17);
            let xr = cli::parse_text(&text).unwrap().1;
            let want = sym.eval(&xr, 0.0);
            let sh = to.iter().map(|v| v.to_string()).collect::<Vec<_>>().join(",");
            let mut runs: Vec<(&str, Vec<String>)> = vec![("shape", vec!["view".into(), "--project-shape".into(), sh, "--precision".into(), "12".into()])];
            if to.iter().all(|t| t % 2 == 1) {
                let ind = to.iter().map(|v| ((v - 1) / 2).to_string()).collect::<Vec<_>>().join(",");
                runs.push(("individuals", vec!["view".into(), "-p".into(), ind, "--precision".into(), "12".into()]));
            }
            for (what, args) in runs {
                let a: Vec<&str> = args.iter().map(|s| s.as_str()).collect();
                let r = cli::sfs(ctx, &a, Some(&text));
                match (r.ok(), cli::parse_text(&r.stdout)) {
                    (true, Ok((gs, gv))) => out.check(gs == to && gv.len() == want.len() && gv.iter().zip(&want).all(|(g, w)| (g - w).abs() <= 0.5e-12 + 1e-9 * w.abs().max(1.0)),
                        || format!("project/cli-{what}/value"), || json!({"args": args, "got": gv, "want": want})),
                    (_, e) => out.fail(format!("project/cli-{what}/{}", if r.panicked() { "panic" } else { "error" }), json!({"args": args, "code": r.code, "stderr": r.stderr, "parse": format!("{e:?}")})),
                }
            }
        }
        "reject" => {
            let from = usizes(&case["from"]);
            let n0: usize = from.iter().product();
            let x: Vec<f64> = (0..n0).map(|p| p as f64).collect();
            let text = cli::write_text(&from, &x, 0);
            out.nontrivial = Some(format!("{from:?}/reject"));
            for (i, p) in case["probes"].as_array().unwrap().iter().enumerate() {
                let to = usizes(&p["to"]);
                match project(&x, &from, &to) {
                    Ok(Err(_)) => out.check(true, String::new, || Value::Null),
                    Ok(Ok(_)) => out.fail("project/reject/accepted", json!({"from": from, "to": to, "why": p["why"]})),
                    Err(m) => out.fail("project/reject/panic", json!({"from": from, "to": to, "panic": m})),
                }
                if i % 4 == 0 {
                    let sh = to.iter().map(|v| v.to_string()).collect::<Vec<_>>().join(",");
                    let r = cli::sfs(ctx, &["view", "--project-shape", &sh], Some(&text));
                    out.check(!r.ok() && !r.panicked() && r.stdout.is_empty() && !r.stderr.trim().is_empty(),
                        || format!("project/reject/cli{}", if r.panicked() { "-panic" } else { "" }),
                        || json!({"from": from, "to": to, "code": r.code, "stderr": r.stderr, "stdout_len": r.stdout.len()}));
                }
            }
        }
        "large" => {
            let n = case["n"].as_u64().unwrap() as usize;
            let m = case["m"].as_u64().unwrap() as usize;
            let k = case["k"].as_u64().unwrap() as usize;
            let row: Vec<f64> = case["row"].as_array().unwrap().iter().map(qnum).collect();
            out.nontrivial = Some(format!("{n}->{m}@{k}"));
            out.tag(format!("size:{}", if n <= 170 { "table" } else if n < 1030 { "lngamma" } else { "beyond-f64-binomials" }));
            // the public function itself, entry by entry (same tolerance as below)
            match guarded(|| (0..=m).map(|j| sfs_core::utils::hypergeometric_pmf(n as u64, k as u64, m as u64, j as u64)).collect::<Vec<f64>>()) {
                Ok(pmf) => {
                    let worst = pmf.iter().zip(&row).map(|(g, w)| if g.is_finite() { ((g - w).abs() - 1e-6 * w.abs()).max(0.0) } else { f64::INFINITY }).fold(0.0, f64::max);
                    out.check(worst <= 1e-9, || "project/large/pmf".into(), || json!({"n": n, "m": m, "k": k, "worst_abs_excess": worst.to_string()}));
                }
                Err(p) => out.fail("project/large/pmf-panic", json!({"n": n, "m": m, "k": k, "panic": p})),
            }
            let mut e = vec![0.0; n + 1];
            e[k] = 1.0;
            match project(&e, &[n + 1], &[m + 1]) {
                Ok(Ok((_, gv))) => {
                    let finite = gv.iter().all(|v| v.is_finite());
                    out.check(finite, || format!("project/large/non-finite/n>={}", if n >= 1030 { 1030 } else { 0 }), || json!({"n": n, "m": m, "k": k, "first": gv.iter().take(5).map(|v| v.to_string()).collect::<Vec<_>>()}));
                    if finite {
                        // absolute 1e-9 plus relative 1e-6: the coefficients are probabilities
                        let worst = gv.iter().zip(&row).map(|(g, w)| ((g - w).abs() - 1e-6 * w.abs()).max(0.0)).fold(0.0, f64::max);
                        out.check(gv.len() == row.len() && worst <= 1e-9, || "project/large/coefficient".into(), || json!({"n": n, "m": m, "k": k, "worst_abs_excess": worst}));
                    }
                }
                Ok(Err(e)) => out.fail("project/large/rejected-admissible", json!({"n": n, "m": m, "error": e})),
                Err(p) => out.fail("project/large/panic", json!({"n": n, "m": m, "k": k, "panic": p})),
            }
        }
        other => out.fail("project/unknown-kind", json!(other)),
    }
    out
}
