//! Running the real `sfs` binary and an independent reader/writer for its two file formats.

use std::{
    io::Write,
    process::{Command, Stdio},
};

use crate::common::Ctx;

#[derive(Debug, Clone)]
pub struct Run {
    pub code: Option<i32>,
    pub stdout: Vec<u8>,
    pub stderr: String,
}

impl Run {
    pub fn panicked(&self) -> bool {
        self.code == Some(101) || self.code.is_none() || self.stderr.contains("panicked at")
    }
    pub fn ok(&self) -> bool {
        self.code == Some(0)
    }
}

/// set for the `cli` family: children get an address-space and CPU limit
pub static LIMIT_CHILDREN: std::sync::atomic::AtomicBool = std::sync::atomic::AtomicBool::new(false);

pub fn sfs(ctx: &Ctx, args: &[&str], stdin: Option<&[u8]>) -> Run {
    sfs_env(ctx, args, stdin, &[])
}

/// The result goes to `-o PATH` where PATH already holds OLDER AND LONGER content (an earlier, larger result): what is found
/// at PATH afterwards is returned as `stdout` (View.tla: Commit / DestinationHoldsOnlyResult - writing replaces the
/// destination entirely).  `left_on_stdout` tells whether anything went to the real stdout as well.
pub fn sfs_onto_stale_file(ctx: &Ctx, args: &[&str], stdin: &[u8], tag: &str) -> (Run, bool) {
    static SEQ: std::sync::atomic::AtomicU64 = std::sync::atomic::AtomicU64::new(0);
    let k = SEQ.fetch_add(1, std::sync::atomic::Ordering::Relaxed);
    let path = format!("{}/files/stale_{}_{}_{k}.out", ctx.work, std::process::id(), tag);
    std::fs::create_dir_all(format!("{}/files", ctx.work)).expect("mkdir");
    // older content: a longer text spectrum followed by a longer npy body - longer than anything the callers produce
    let mut old = write_text(&[40, 40], &vec![7.0; 1600], 6);
    old.extend_from_slice(&write_npy(&[40, 40], &vec![7.0; 1600]));
    old.extend_from_slice(stdin);
    std::fs::write(&path, &old).expect("write stale file");
    let mut a: Vec<&str> = args.to_vec();
    a.extend(["-o", &path]);
    let r = sfs(ctx, &a, Some(stdin));
    let bytes = std::fs::read(&path).unwrap_or_default();
    let _ = std::fs::remove_file(&path);
    let left = !r.stdout.is_empty();
    (Run { code: r.code, stdout: bytes, stderr: r.stderr }, left)
}

/// IN PLACE: the input is stored at PATH, given by path, and `-o PATH` names the same file.  What PATH holds afterwards is
/// returned as `stdout`.
pub fn sfs_in_place(ctx: &Ctx, args: &[&str], input: &[u8], tag: &str) -> (Run, bool) {
    static SEQ: std::sync::atomic::AtomicU64 = std::sync::atomic::AtomicU64::new(0);
    let k = SEQ.fetch_add(1, std::sync::atomic::Ordering::Relaxed);
    let path = format!("{}/files/inplace_{}_{}_{k}.sfs", ctx.work, std::process::id(), tag);
    std::fs::create_dir_all(format!("{}/files", ctx.work)).expect("mkdir");
    std::fs::write(&path, input).expect("write input file");
    let mut a: Vec<&str> = args.to_vec();
    a.extend(["-o", &path, &path]);
    let r = sfs(ctx, &a, None);
    let bytes = std::fs::read(&path).unwrap_or_default();
    let _ = std::fs::remove_file(&path);
    let left = !r.stdout.is_empty();
    (Run { code: r.code, stdout: bytes, stderr: r.stderr }, left)
}

/// Like `sfs`, but the input arrives on a real pipe in two pieces: `first` bytes, a pause, the rest.
pub fn sfs_delayed(ctx: &Ctx, args: &[&str], stdin: &[u8], first: usize) -> Run {
    let mut cmd = Command::new(&ctx.sfs_bin);
    cmd.args(args).env("SFS_ALLOW_STDIN", "1").env_remove("RUST_BACKTRACE").env_remove("RUST_LOG")
        .stdout(Stdio::piped()).stderr(Stdio::piped()).stdin(Stdio::piped());
    let mut child = cmd.spawn().unwrap_or_else(|e| panic!("cannot run {}: {e}", ctx.sfs_bin));
    let mut si = child.stdin.take().unwrap();
    let bytes = stdin.to_vec();
    let first = first.min(bytes.len());
    std::thread::spawn(move || {
        let _ = si.write_all(&bytes[..first]);
        let _ = si.flush();
        // the rest only leaves once the reader has TAKEN the first piece (see feed_fifo)
        {
            use std::os::unix::io::AsRawFd;
            let fd = si.as_raw_fd();
            let t0 = std::time::Instant::now();
            loop {
                let mut pending: libc::c_int = 0;
                let rc = unsafe { libc::ioctl(fd, libc::FIONREAD, &mut pending) };
                if rc != 0 || pending == 0 || t0.elapsed().as_millis() > 2000 {
                    break;
                }
                std::thread::sleep(std::time::Duration::from_millis(1));
            }
        }
        std::thread::sleep(std::time::Duration::from_millis(3));
        let _ = si.write_all(&bytes[first..]);
    });
    let out = child.wait_with_output().expect("wait");
    Run { code: out.status.code(), stdout: out.stdout, stderr: String::from_utf8_lossy(&out.stderr).into_owned() }
}

/// The input is given BY PATH, but the path is a named pipe fed slowly (first `first` bytes, a pause, the rest).
/// Returns None when the pipe could not be set up (tool problem, not a verdict).
pub fn sfs_fifo(ctx: &Ctx, args: &[&str], bytes: &[u8], first: usize, fifo: &str) -> Option<Run> {
    let _ = std::fs::remove_file(fifo);
    if !Command::new("mkfifo").arg(fifo).status().map(|s| s.success()).unwrap_or(false) {
        return None;
    }
    let first = first.min(bytes.len());
    let feeder = feed_fifo(fifo, vec![bytes[..first].to_vec(), bytes[first..].to_vec()], 3);
    let mut cmd = Command::new(&ctx.sfs_bin);
    cmd.args(args).arg(fifo).env("SFS_ALLOW_STDIN", "1").env_remove("RUST_BACKTRACE").env_remove("RUST_LOG")
        .stdout(Stdio::piped()).stderr(Stdio::piped()).stdin(Stdio::null());
    let out = cmd.spawn().and_then(|c| c.wait_with_output());
    release_fifo(fifo, feeder);
    let out = out.ok()?;
    Some(Run { code: out.status.code(), stdout: out.stdout, stderr: String::from_utf8_lossy(&out.stderr).into_owned() })
}

/// The writing side of a named pipe, free of timing assumptions: the thread opens the pipe for writing (which blocks until
/// the reader has opened it - so even an EMPTY stream reaches a reader that exists), writes the parts with an optional pause
/// between them, and closes.  A reader that goes away early gives EPIPE, which ends the thread.
fn feed_fifo(fifo: &str, parts: Vec<Vec<u8>>, pause_ms: u64) -> std::thread::JoinHandle<()> {
    let path = fifo.to_string();
    std::thread::spawn(move || {
        let Ok(mut w) = std::fs::OpenOptions::new().write(true).open(&path) else { return };
        for (i, part) in parts.iter().enumerate() {
            if i > 0 && !part.is_empty() {
                // the next part only leaves once the reader has TAKEN the previous one (the pipe is empty again), so that the
                // reader really sees two separate bursts - a short read followed by more data - however loaded the machine is
                {
                    use std::os::unix::io::AsRawFd;
                    let fd = w.as_raw_fd();
                    let t0 = std::time::Instant::now();
                    loop {
                        let mut pending: libc::c_int = 0;
                        let rc = unsafe { libc::ioctl(fd, libc::FIONREAD, &mut pending) };
                        if rc != 0 || pending == 0 || t0.elapsed().as_millis() > 2000 {
                            break;
                        }
                        std::thread::sleep(std::time::Duration::from_millis(1));
                    }
                }
                std::thread::sleep(std::time::Duration::from_millis(pause_ms));
            }
            if w.write_all(part).is_err() {
                return;
            }
        }
    })
}

/// Called after the child has exited: a reader that never opened the pipe would leave the writer blocked in open(); opening
/// the reading side ourselves (non-blocking) releases it, and draining lets it finish whatever it still wants to write.
fn release_fifo(fifo: &str, feeder: std::thread::JoinHandle<()>) {
    use std::io::Read;
    use std::os::unix::fs::OpenOptionsExt;
    if !feeder.is_finished() {
        if let Ok(mut r) = std::fs::OpenOptions::new().read(true).custom_flags(libc::O_NONBLOCK).open(fifo) {
            let mut buf = [0u8; 65536];
            while !feeder.is_finished() {
                let _ = r.read(&mut buf);
                std::thread::sleep(std::time::Duration::from_millis(1));
            }
        }
    }
    let _ = feeder.join();
    let _ = std::fs::remove_file(fifo);
}

pub fn sfs_env(ctx: &Ctx, args: &[&str], stdin: Option<&[u8]>, env: &[(&str, &str)]) -> Run {
    let mut cmd = Command::new(&ctx.sfs_bin);
    cmd.args(args)
        .env("SFS_ALLOW_STDIN", "1")
        .env_remove("RUST_BACKTRACE")
        .env_remove("RUST_LOG")
        .stdout(Stdio::piped())
        .stderr(Stdio::piped())
        .stdin(if stdin.is_some() { Stdio::piped() } else { Stdio::null() });
    for (k, v) in env {
        cmd.env(k, v);
    }
    // safety net for the sandbox, far above anything a scenario needs: 24 GiB of address space, 300 s of CPU
    // (only where absurd scenarios are run: pre_exec makes std fork instead of posix_spawn, which is much slower)
    if LIMIT_CHILDREN.load(std::sync::atomic::Ordering::Relaxed) {
      unsafe {
        use std::os::unix::process::CommandExt;
        cmd.pre_exec(|| {
            let r = libc::rlimit { rlim_cur: 24 << 30, rlim_max: 24 << 30 };
            libc::setrlimit(libc::RLIMIT_AS, &r);
            let c = libc::rlimit { rlim_cur: 300, rlim_max: 300 };
            libc::setrlimit(libc::RLIMIT_CPU, &c);
            Ok(())
        });
      }
    }
    let mut child = cmd.spawn().unwrap_or_else(|e| panic!("cannot run {}: {e}", ctx.sfs_bin));
    if let Some(bytes) = stdin {
        let mut si = child.stdin.take().unwrap();
        let bytes = bytes.to_vec();
        // write from a thread so a child that exits early or fills its pipes cannot deadlock us
        std::thread::spawn(move || {
            let _ = si.write_all(&bytes);
        });
    }
    let out = child.wait_with_output().expect("wait");
    Run {
        code: out.status.code(),
        stdout: out.stdout,
        stderr: String::from_utf8_lossy(&out.stderr).into_owned(),
    }
}

/// Text format as the tool documents it: `#SHAPE=<a/b>` then the values.
pub fn write_text(shape: &[usize], values: &[f64], precision: usize) -> Vec<u8> {
    let sh: Vec<String> = shape.iter().map(|x| x.to_string()).collect();
    let vs: Vec<String> = values.iter().map(|x| format!("{x:.precision$}")).collect();
    format!("#SHAPE=<{}>\n{}\n", sh.join("/"), vs.join(" ")).into_bytes()
}

pub fn parse_text(bytes: &[u8]) -> Result<(Vec<usize>, Vec<f64>), String> {
    let s = std::str::from_utf8(bytes).map_err(|e| e.to_string())?;
    let mut lines = s.lines();
    let header = lines.next().ok_or("empty output")?;
    let inner = header
        .strip_prefix("#SHAPE=<")
        .and_then(|r| r.strip_suffix('>'))
        .ok_or_else(|| format!("bad header {header:?}"))?;
    let shape = inner
        .split('/')
        .map(|t| t.parse::<usize>().map_err(|e| format!("{e} in {header:?}")))
        .collect::<Result<Vec<_>, _>>()?;
    let rest: Vec<&str> = lines.collect();
    if rest.len() != 1 {
        return Err(format!("expected exactly one value line, got {}", rest.len()));
    }
    let values = rest[0]
        .split(' ')
        .filter(|t| !t.is_empty())
        .map(|t| t.parse::<f64>().map_err(|e| format!("{e}: {t:?}")))
        .collect::<Result<Vec<_>, _>>()?;
    Ok((shape, values))
}

/// NPY 1.0, '<f8', C order, exactly as numpy.save lays it out.
pub fn write_npy(shape: &[usize], values: &[f64]) -> Vec<u8> {
    let sh = if shape.len() == 1 {
        format!("({},)", shape[0])
    } else {
        format!("({})", shape.iter().map(|x| x.to_string()).collect::<Vec<_>>().join(", "))
    };
    let mut dict = format!("{{'descr': '<f8', 'fortran_order': False, 'shape': {sh}, }}");
    let unpadded = 10 + dict.len() + 1;
    let pad = (64 - unpadded % 64) % 64;
    dict.push_str(&" ".repeat(pad));
    dict.push('\n');
    let mut out = b"\x93NUMPY\x01\x00".to_vec();
    out.extend_from_slice(&(dict.len() as u16).to_le_bytes());
    out.extend_from_slice(dict.as_bytes());
    for v in values {
        out.extend_from_slice(&v.to_le_bytes());
    }
    out
}

/// Independent, strict parser for what the tool is supposed to write (version 1.0, '<f8').
pub fn parse_npy(bytes: &[u8]) -> Result<(Vec<usize>, Vec<f64>), String> {
    if bytes.len() < 10 || &bytes[..6] != b"\x93NUMPY" {
        return Err("bad magic".into());
    }
    if bytes[6] != 1 || bytes[7] != 0 {
        return Err(format!("version {}.{}", bytes[6], bytes[7]));
    }
    let hl = u16::from_le_bytes([bytes[8], bytes[9]]) as usize;
    if bytes.len() < 10 + hl {
        return Err("truncated header".into());
    }
    let dict = std::str::from_utf8(&bytes[10..10 + hl]).map_err(|e| e.to_string())?;
    if !dict.ends_with('\n') {
        return Err("header not newline-terminated".into());
    }
    if (10 + hl) % 64 != 0 {
        return Err(format!("data offset {} not a multiple of 64", 10 + hl));
    }
    if !dict.contains("'descr': '<f8'") || !dict.contains("'fortran_order': False") {
        return Err(format!("unexpected dict {dict:?}"));
    }
    let a = dict.find("'shape': (").ok_or("no shape")? + "'shape': (".len();
    let b = a + dict[a..].find(')').ok_or("no )")?;
    let shape = dict[a..b]
        .split(',')
        .map(|t| t.trim())
        .filter(|t| !t.is_empty())
        .map(|t| t.parse::<usize>().map_err(|e| e.to_string()))
        .collect::<Result<Vec<_>, _>>()?;
    let data = &bytes[10 + hl..];
    if data.len() % 8 != 0 {
        return Err("data not a multiple of 8 bytes".into());
    }
    let values: Vec<f64> = data
        .chunks(8)
        .map(|c| f64::from_le_bytes(c.try_into().unwrap()))
        .collect();
    if values.len() != shape.iter().product::<usize>() {
        return Err("value count does not match shape".into());
    }
    Ok((shape, values))
}

/// Scratch file under the per-run work directory; removed by the caller.
pub fn scratch(ctx: &Ctx, name: &str, bytes: &[u8]) -> String {
    let dir = format!("{}/files", ctx.work);
    std::fs::create_dir_all(&dir).expect("mkdir");
    let path = format!("{dir}/{name}");
    std::fs::write(&path, bytes).expect("write scratch");
    path
}

/// Run the binary with a sink that FAILS AT A CHOSEN BYTE OFFSET: the output goes to a regular file (stdout redirected to it,
/// or `-o <file>` when `via_stdout` is false) under RLIMIT_FSIZE = `limit` with SIGXFSZ ignored, so the write crossing
/// `limit` is cut short and every later write fails with EFBIG.  `limit` None = no failure.  Returns the run and the
/// bytes that reached the file.
pub fn sfs_fsize(ctx: &Ctx, args: &[&str], stdin: &[u8], limit: Option<u64>, out_path: &str, via_stdout: bool) -> (Run, Vec<u8>) {
    use std::os::unix::process::CommandExt;
    let _ = std::fs::remove_file(out_path);
    let mut cmd = Command::new(&ctx.sfs_bin);
    cmd.args(args).env("SFS_ALLOW_STDIN", "1").env_remove("RUST_BACKTRACE").env_remove("RUST_LOG")
        .stderr(Stdio::piped()).stdin(Stdio::piped());
    if via_stdout {
        cmd.stdout(std::fs::File::create(out_path).expect("create sink"));
    } else {
        cmd.args(["-o", out_path]).stdout(Stdio::piped());
    }
    if let Some(l) = limit {
        unsafe {
            cmd.pre_exec(move || {
                libc::signal(libc::SIGXFSZ, libc::SIG_IGN);
                let r = libc::rlimit { rlim_cur: l as libc::rlim_t, rlim_max: l as libc::rlim_t };
                if libc::setrlimit(libc::RLIMIT_FSIZE, &r) != 0 {
                    return Err(std::io::Error::last_os_error());
                }
                Ok(())
            });
        }
    }
    let mut child = cmd.spawn().unwrap_or_else(|e| panic!("cannot run {}: {e}", ctx.sfs_bin));
    let mut si = child.stdin.take().unwrap();
    let bytes = stdin.to_vec();
    std::thread::spawn(move || { let _ = si.write_all(&bytes); });
    let out = child.wait_with_output().expect("wait");
    let written = std::fs::read(out_path).unwrap_or_default();
    let _ = std::fs::remove_file(out_path);
    (Run { code: out.status.code(), stdout: out.stdout, stderr: String::from_utf8_lossy(&out.stderr).into_owned() }, written)
}

/// Run with stdout connected to a sink that is already dead: a pipe whose reading end is closed (every write fails with
/// EPIPE; SIGPIPE is ignored by the Rust runtime) or /dev/full (every write fails with ENOSPC).
pub fn sfs_dead_stdout(ctx: &Ctx, args: &[&str], stdin: &[u8], kind: &str) -> Run {
    use std::os::fd::{FromRawFd, OwnedFd};
    let mut cmd = Command::new(&ctx.sfs_bin);
    cmd.args(args).env("SFS_ALLOW_STDIN", "1").env_remove("RUST_BACKTRACE").env_remove("RUST_LOG")
        .stderr(Stdio::piped()).stdin(Stdio::piped());
    if kind == "epipe" {
        let mut fds = [0i32; 2];
        unsafe {
            libc::pipe2(fds.as_mut_ptr(), libc::O_CLOEXEC);
            libc::close(fds[0]);
            cmd.stdout(Stdio::from(OwnedFd::from_raw_fd(fds[1])));
        }
    } else {
        cmd.stdout(std::fs::OpenOptions::new().write(true).open("/dev/full").expect("open /dev/full"));
    }
    let mut child = cmd.spawn().unwrap_or_else(|e| panic!("cannot run {}: {e}", ctx.sfs_bin));
    let mut si = child.stdin.take().unwrap();
    let bytes = stdin.to_vec();
    std::thread::spawn(move || { let _ = si.write_all(&bytes); });
    let out = child.wait_with_output().expect("wait");
    Run { code: out.status.code(), stdout: Vec::new(), stderr: String::from_utf8_lossy(&out.stderr).into_owned() }
}

/// Like `sfs`, with the working directory of the child set to `dir` (relative file names are then relative to it).
pub fn sfs_in_dir(ctx: &Ctx, args: &[&str], stdin: Option<&[u8]>, dir: &str) -> Run {
    let mut cmd = Command::new(&ctx.sfs_bin);
    cmd.args(args).current_dir(dir).env("SFS_ALLOW_STDIN", "1").env_remove("RUST_BACKTRACE").env_remove("RUST_LOG")
        .stdout(Stdio::piped()).stderr(Stdio::piped()).stdin(if stdin.is_some() { Stdio::piped() } else { Stdio::null() });
    let mut child = cmd.spawn().unwrap_or_else(|e| panic!("cannot run {}: {e}", ctx.sfs_bin));
    if let Some(bytes) = stdin {
        let mut si = child.stdin.take().unwrap();
        let bytes = bytes.to_vec();
        std::thread::spawn(move || { let _ = si.write_all(&bytes); });
    }
    let out = child.wait_with_output().expect("wait");
    Run { code: out.status.code(), stdout: out.stdout, stderr: String::from_utf8_lossy(&out.stderr).into_owned() }
}

/// Run with a SECONDARY input (e.g. the file named by --samples-file) delivered through a named pipe at `fifo`; `args` already
/// name that path.  Same protocol as `sfs_fifo`.
pub fn sfs_side_fifo(ctx: &Ctx, args: &[&str], fifo: &str, content: &[u8], stdin: Option<&[u8]>) -> Option<Run> {
    let _ = std::fs::remove_file(fifo);
    if !Command::new("mkfifo").arg(fifo).status().map(|s| s.success()).unwrap_or(false) {
        return None;
    }
    // the secondary input arrives in two bursts when it has more than one line (first line, a pause, the rest)
    let cut = content.iter().position(|b| *b == b'\n').map(|p| p + 1).filter(|p| *p < content.len());
    let parts = match cut { Some(c) => vec![content[..c].to_vec(), content[c..].to_vec()], None => vec![content.to_vec()] };
    let feeder = feed_fifo(fifo, parts, 3);
    let mut cmd = Command::new(&ctx.sfs_bin);
    cmd.args(args).env("SFS_ALLOW_STDIN", "1").env_remove("RUST_BACKTRACE").env_remove("RUST_LOG")
        .stdout(Stdio::piped()).stderr(Stdio::piped()).stdin(if stdin.is_some() { Stdio::piped() } else { Stdio::null() });
    let out = cmd.spawn().and_then(|mut child| {
        if let Some(bytes) = stdin {
            let mut si = child.stdin.take().unwrap();
            let bytes = bytes.to_vec();
            std::thread::spawn(move || { let _ = si.write_all(&bytes); });
        }
        child.wait_with_output()
    });
    release_fifo(fifo, feeder);
    let out = out.ok()?;
    Some(Run { code: out.status.code(), stdout: out.stdout, stderr: String::from_utf8_lossy(&out.stderr).into_owned() })
}
