//! Family `array` (C19): replays call histories and probe tables of ArrayApi.tla on
//! sfs_core::array.  The array under test holds its own flat positions.

use serde_json::{json, Value};
use sfs_core::{
    array::{Array, Axis},
    Scs,
};

use crate::common::*;

fn make(shape: &[usize]) -> Array<f64> {
    let n: usize = shape.iter().product();
    Array::new((0..n).map(|v| v as f64).collect::<Vec<_>>(), shape.to_vec()).expect("shape fits")
}

/// What one call returned, in the vocabulary of the specification.
#[derive(Debug, Clone, PartialEq)]
enum R {
    Some(Value),
    None,
    Panic(String),
}

impl R {
    fn json(&self) -> Value {
        match self {
            R::Some(v) => json!({"k": "some", "v": v}),
            R::None => json!({"k": "none"}),
            R::Panic(m) => json!({"k": "panic", "msg": m}),
        }
    }
    fn matches(&self, spec: &Value) -> bool {
        match (self, spec["k"].as_str().unwrap()) {
            (R::Some(v), "some") => same(v, &spec["v"]),
            (R::None, "none") => true,
            (R::Panic(_), "panic") => true,
            _ => false,
        }
    }
}

/// JSON equality where numbers compare by value (1 == 1.0) and NaN == NaN ("nan").
fn same(a: &Value, b: &Value) -> bool {
    match (a, b) {
        (Value::Array(x), Value::Array(y)) => x.len() == y.len() && x.iter().zip(y).all(|(p, q)| same(p, q)),
        (Value::Object(x), Value::Object(y)) => {
            x.len() == y.len() && x.iter().all(|(k, v)| y.get(k).map_or(false, |w| same(v, w)))
        }
        (Value::Number(_), _) | (_, Value::Number(_)) | (Value::String(_), Value::String(_)) => {
            match (num(a), num(b)) {
                (Some(p), Some(q)) => (p.is_nan() && q.is_nan()) || p == q,
                _ => a == b,
            }
        }
        _ => a == b,
    }
}

fn num(v: &Value) -> Option<f64> {
    match v {
        Value::Number(n) => n.as_f64(),
        Value::String(s) if s == "nan" => Some(f64::NAN),
        _ => None,
    }
}

fn view_json(view: &sfs_core::array::view::View<'_, f64>) -> Result<Value, String> {
    guarded(|| {
        let arr = view.to_array();
        json!({
            "shape": arr.shape().as_ref().to_vec(),
            "elems": arr.as_slice().iter().map(|&x| x as u64).collect::<Vec<_>>(),
        })
    })
}

fn clone_view<'a>(it: &sfs_core::array::view::Iter<'a, f64>) -> Option<sfs_core::array::view::Iter<'a, f64>> {
    Some(it.clone())
}

pub fn run(case: &Value, _ctx: &Ctx) -> Outcome {
    let mut out = Outcome::default();
    let shape = usizes(&case["shape"]);
    let obj = &case["obj"];
    let kind = obj["kind"].as_str().unwrap();
    let h = case["h"].as_array().unwrap();
    let array = make(&shape);
    let elements: usize = shape.iter().product();
    if elements > 1 {
        out.nontrivial = Some(format!("{shape:?}/{obj}"));
    }
    out.tag(format!("obj:{kind}"));

    // A history: len() then next(), call after call; every observation is compared.
    macro_rules! history {
        ($iter:expr, $conv:expr) => {
            history!($iter, $conv, |_it| None)
        };
        ($iter:expr, $conv:expr, $clone:expr) => {{
            let mut iter = $iter;
            for (j, e) in h.iter().enumerate() {
                let nth = e.get("n").and_then(|x| x.as_i64()).unwrap_or(-1);
                if nth == -2 {
                    // the rest of the history runs on a clone of the iterator
                    match guarded(|| $clone(&iter)) {
                        Ok(Some(c)) => iter = c,
                        Ok(None) => { out.fail(format!("array/{kind}/clone-unsupported"), json!({"call": j})); break; }
                        Err(m) => { out.fail(format!("array/{kind}/clone/panic"), json!({"call": j, "panic": m})); break; }
                    }
                }
                let len = guarded(|| iter.len() as i64).unwrap_or(-1);
                let want_len = e["len"].as_i64().unwrap();
                out.check(
                    len == want_len,
                    || format!("array/{kind}/len"),
                    || json!({"call": j, "len_reported": len, "len_expected": want_len}),
                );
                if nth == -2 {
                    continue;
                }
                let got = match guarded(|| if nth < 0 { iter.next() } else { iter.nth(nth as usize) }) {
                    Ok(Some(x)) => match $conv(x) {
                        Ok(v) => R::Some(v),
                        Err(m) => R::Panic(m),
                    },
                    Ok(None) => R::None,
                    Err(m) => R::Panic(m),
                };
                let ok = got.matches(&e["next"]);
                let after_none = h[..j].iter().any(|p| p["next"]["k"] == "none");
                out.check(
                    ok,
                    || {
                        format!(
                            "array/{kind}/{}/{}{}",
                            if nth < 0 { "next" } else { "nth" },
                            match &got {
                                R::Some(_) => "some",
                                R::None => "none",
                                R::Panic(_) => "panic",
                            },
                            if after_none { "-after-none" } else { "" }
                        )
                    },
                    || json!({"call": j, "got": got.json(), "expected": e["next"]}),
                );
                if matches!(got, R::Panic(_)) {
                    break;
                }
            }
        }};
    }

    match kind {
        "indices" => {
            history!(array.iter_indices(), |x: Vec<usize>| Ok::<_, String>(json!(x)));
        }
        "freq" => {
            let scs = Scs::from(array.clone());
            let sh = shape.clone();
            // expected frequencies are index / (n - 1) per axis; the spec emits the index
            history!(scs.iter_frequencies(), |x: Vec<f64>| {
                // map back to the index the frequency stands for (exactly representable check)
                let idx: Vec<Value> = x
                    .iter()
                    .zip(sh.iter())
                    .map(|(&f, &n)| {
                        if n == 1 {
                            // 0/0: the frequency of the only index of a length-1 axis is undefined
                            if f.is_nan() { json!(0) } else { json!(format!("freq {f} on length-1 axis")) }
                        } else {
                            let k = (f * (n - 1) as f64).round();
                            if (k / (n - 1) as f64 - f).abs() < 1e-15 { json!(k as u64) } else { json!(f) }
                        }
                    })
                    .collect();
                Ok::<_, String>(Value::Array(idx))
            });
        }
        "axis" => {
            let a = obj["a"].as_u64().unwrap() as usize;
            history!(array.iter_axis(Axis(a)), |v: sfs_core::array::view::View<'_, f64>| view_json(&v));
        }
        "view" => {
            let a = obj["a"].as_u64().unwrap() as usize;
            let i = obj["i"].as_u64().unwrap() as usize;
            match guarded(|| array.get_axis(Axis(a), i)) {
                Ok(Some(view)) => match guarded(|| view.iter()) {
                    Ok(it) => history!(it, |x: &f64| Ok::<_, String>(json!(*x as u64)), clone_view),
                    Err(m) => out.fail("array/view/iter-panic", json!({"panic": m})),
                },
                Ok(None) => out.fail("array/view/get_axis-none", json!({"a": a, "i": i})),
                Err(m) => out.fail("array/view/get_axis-panic", json!({"panic": m})),
            }
        }
        "odometer" => {
            // Odometer.tla with concrete large constants: the whole call history of one view iterator folded into a rolling
            // hash; len() is compared before every call against the model's closed form (cells of the view - items yielded)
            let a = obj["axis"].as_u64().unwrap() as usize;
            let i = obj["pos"].as_u64().unwrap() as usize;
            let calls = case["calls"].as_u64().unwrap();
            let res = guarded(|| {
                let view = array.get_axis(Axis(a), i)?;
                let mut it = view.iter();
                let first = *view.iter().next()? as i64;
                let cells: u64 = shape.iter().enumerate().filter(|(j, _)| *j != a).map(|(_, n)| *n as u64).product();
                let (mut hash, mut yielded, mut bad_len): (u64, u64, Option<(u64, usize)>) = (0, 0, None);
                for k in 0..calls {
                    if it.len() as u64 != cells - yielded && bad_len.is_none() {
                        bad_len = Some((k, it.len()));
                    }
                    let last: i64 = match it.next() {
                        Some(x) => { yielded += 1; *x as i64 - first }
                        None => -1,
                    };
                    hash = (hash * 31 + (last + 7) as u64) % 1_000_003;
                }
                Some((hash, yielded, bad_len))
            });
            match res {
                Ok(Some((hash, yielded, bad_len))) => {
                    out.check(bad_len.is_none(), || "array/odometer/len".into(), || json!({"call_and_len": format!("{bad_len:?}")}));
                    out.check(yielded == case["yielded"].as_u64().unwrap(), || "array/odometer/yielded".into(), || json!({"got": yielded, "want": case["yielded"]}));
                    out.check(hash == case["hash"].as_u64().unwrap(), || "array/odometer/sequence".into(), || json!({"got_hash": hash, "want_hash": case["hash"]}));
                }
                Ok(None) => out.fail("array/odometer/no-view", json!({"axis": a, "pos": i})),
                Err(m) => out.fail("array/odometer/panic", json!({"panic": m})),
            }
        }
        "table" => {
            let t = &h[0];
            // The array under test is obtained in three ways - built, cloned, and written over an array of ANOTHER shape
            // with clone_from - and answers every probe alike (ArrayApi.tla: the table is a function of the shape alone).
            let other: Vec<usize> = { let mut o: Vec<usize> = shape.iter().rev().copied().collect(); if let Some(l) = o.last_mut() { *l += 1; } o.push(2); o };
            let constructions: Vec<(&str, Array<f64>)> = vec![
                ("clone", array.clone()),
                ("clone_from", { let mut a = make(&other); a.clone_from(&array); a }),
                ("new", make(&shape)),
            ];
            for (via, array) in constructions.iter().map(|(v, a)| (*v, a)) {
            let tagv = if via == "new" { String::new() } else { format!("/{via}") };
            for e in t["get"].as_array().unwrap() {
                let idx = usizes(&e["idx"]);
                let got = match guarded(|| array.get(&idx).copied()) {
                    Ok(Some(x)) => R::Some(json!(x as u64)),
                    Ok(None) => R::None,
                    Err(m) => R::Panic(m),
                };
                out.check(
                    got.matches(&e["r"]),
                    || "array/get".to_string(),
                    || json!({"idx": idx, "got": got.json(), "expected": e["r"]}),
                );
            }
            for e in t["getaxis"].as_array().unwrap() {
                let a = e["a"].as_u64().unwrap() as usize;
                let i = e["i"].as_u64().unwrap() as usize;
                let got = match guarded(|| array.get_axis(Axis(a), i)) {
                    Ok(Some(v)) => match view_json(&v) {
                        Ok(j) => R::Some(j),
                        Err(m) => R::Panic(m),
                    },
                    Ok(None) => R::None,
                    Err(m) => R::Panic(m),
                };
                out.check(
                    got.matches(&e["r"]),
                    || {
                        format!(
                            "array/get_axis/{}{tagv}",
                            if a >= shape.len() { "axis-out-of-range" } else { "in-range-axis" }
                        )
                    },
                    || json!({"a": a, "i": i, "got": got.json(), "expected": e["r"]}),
                );
            }
            for e in t["sum"].as_array().unwrap() {
                let a = e["a"].as_u64().unwrap() as usize;
                let got = guarded(|| {
                    let s = array.sum(Axis(a));
                    (s.shape().as_ref().to_vec(), s.as_slice().to_vec())
                });
                let want_shape = usizes(&e["shape"]);
                let want: Vec<f64> = e["r"].as_array().unwrap().iter().map(qnum).collect();
                out.check(
                    matches!(&got, Ok((s, d)) if *s == want_shape && *d == want),
                    || "array/sum".to_string(),
                    || json!({"a": a, "got": format!("{got:?}"), "expected": e["r"]}),
                );
            }
            // "summing along an axis equals ADDING THOSE VIEWS": on cell values that are not small integers (tenths, huge
            // values, infinities) the sum must be what adding the views position by position gives
            if shape.len() > 1 {
                let n: usize = shape.iter().product();
                let classes: [(&str, Vec<f64>); 3] = [
                    ("tenths", (0..n).map(|p| 0.1 * ((p % 7) as f64 + 1.0)).collect()),
                    ("infinite", (0..n).map(|p| if p % 5 == 1 { f64::INFINITY } else if p % 11 == 3 { -1e308 } else { p as f64 * 0.25 }).collect()),
                    ("overflowing", (0..n).map(|p| if p % 2 == 0 { 1e308 } else { 9e307 }).collect()),
                ];
                for (cname, data) in classes {
                    let arr = match sfs_core::Array::new(data, shape.clone()) { Ok(a) => a, Err(_) => continue };
                    for a in 0..shape.len() {
                        let got = guarded(|| arr.sum(Axis(a)).as_slice().to_vec());
                        let by_views = guarded(|| {
                            // zeros of the remaining shape, then one view after the other
                            let n_out: usize = shape.iter().enumerate().filter(|(j, _)| *j != a).map(|(_, l)| *l).product();
                            let mut acc = vec![0.0f64; n_out];
                            for i in 0..shape[a] {
                                let v: Vec<f64> = arr.get_axis(Axis(a), i).unwrap().iter().copied().collect();
                                acc = acc.iter().zip(&v).map(|(x, y)| x + y).collect();
                            }
                            acc
                        });
                        match (got, by_views) {
                            // finite sums may differ in the last bits (another association of the same additions is no violation);
                            // an infinite or NaN sum must be exactly what adding the views gives
                            (Ok(g), Ok(w)) => out.check(g.len() == w.len() && g.iter().zip(&w).all(|(x, y)| x.to_bits() == y.to_bits() || (x.is_nan() && y.is_nan())
                                    || (x.is_finite() && y.is_finite() && (x - y).abs() <= 1e-12 * x.abs().max(y.abs()))),
                                || format!("array/sum-vs-views/{cname}"), || json!({"shape": shape, "axis": a, "sum": g.iter().map(|x| x.to_string()).collect::<Vec<_>>(), "views_added": w.iter().map(|x| x.to_string()).collect::<Vec<_>>()})),
                            (g, w) => out.fail(format!("array/sum-vs-views/{cname}/panic"), json!({"sum": format!("{:?}", g.err()), "views": format!("{:?}", w.err())})),
                        }
                    }
                }
            }
            }
        }
        other => out.fail("array/unknown-kind", json!(other)),
    }
    out
}
