//! Symbolic spectra emitted by SpectrumOps.tla: every cell is a linear form over the cells of the
//! starting spectrum (ids 1..N0) and the fill value (id 0) with exact rational coefficients.

use serde_json::Value;

use crate::common::qnum;

#[derive(Clone, Debug)]
pub struct Symbolic {
    pub shape: Vec<usize>,
    pub cells: Vec<Vec<(usize, f64)>>,
}

pub fn parse_lf(v: &Value) -> Vec<(usize, f64)> {
    match v {
        // a function whose domain happens to be 1..n is printed as a JSON array
        Value::Array(a) => a.iter().enumerate().map(|(i, c)| (i + 1, qnum(c))).collect(),
        Value::Object(o) => o
            .iter()
            .map(|(k, c)| (k.parse::<usize>().expect("id"), qnum(c)))
            .collect(),
        _ => panic!("not a linear form: {v}"),
    }
}

impl Symbolic {
    pub fn parse(v: &Value) -> Self {
        Self {
            shape: crate::common::usizes(&v["shape"]),
            cells: v["cells"].as_array().expect("cells").iter().map(parse_lf).collect(),
        }
    }

    /// Evaluate on the starting vector `x` (x[id-1]) and the fill value.
    pub fn eval(&self, x: &[f64], fill: f64) -> Vec<f64> {
        self.cells.iter().map(|lf| eval_lf(lf, x, fill)).collect()
    }
}

pub fn eval_lf(lf: &[(usize, f64)], x: &[f64], fill: f64) -> f64 {
    // a cell that is exactly the fill value (coefficient 1, nothing else) is the fill bit for bit
    if lf.len() == 1 && lf[0].0 == 0 && lf[0].1 == 1.0 {
        return fill;
    }
    let mut s = 0.0;
    for &(id, c) in lf {
        let v = if id == 0 { fill } else { x[id - 1] };
        s += c * v;
    }
    s
}
