//! Family `stats` (C06): call sets and count spectra from StatsCheck.tla against `create | stat`
//! and the Spectrum methods.

use serde_json::{json, Value};
use sfs_core::Scs;

use crate::{cli, common::*, gen};

pub fn cli_name(stat: &str) -> &'static str {
    match stat {
        "sum" => "sum", "s" => "s", "pi" => "pi", "theta" => "theta", "d_tajima" => "d-tajima", "d_fu_li" => "d-fu-li",
        "pi_xy" => "pi-xy", "f2" => "f2", "fst" => "fst", "king" => "king", "r0" => "r0", "r1" => "r1", "f3" => "f3", "f4" => "f4",
        _ => panic!("unknown statistic {stat}"),
    }
}

pub fn lib_stat(stat: &str, scs: &Scs) -> Result<f64, String> {
    let e = |e: sfs_core::spectrum::StatisticError| e.to_string();
    match stat {
        "sum" => Ok(scs.sum()),
        "s" => Ok(scs.segregating_sites()),
        "pi" => scs.pi().map_err(e),
        "theta" => scs.theta_watterson().map_err(e),
        "d_tajima" => scs.d_tajima().map_err(e),
        "d_fu_li" => scs.d_fu_li().map_err(e),
        "pi_xy" => scs.pi_xy().map_err(e),
        "king" => scs.king().map_err(e),
        "r0" => scs.r0().map_err(e),
        "r1" => scs.r1().map_err(e),
        "f2" => scs.clone().into_normalized().f2().map_err(e),
        "f3" => scs.clone().into_normalized().f3().map_err(e),
        "f4" => scs.clone().into_normalized().f4().map_err(e),
        "fst" => scs.clone().into_normalized().fst().map_err(e),
        _ => Err(format!("unknown statistic {stat}")),
    }
}

/// The f64 the specification's value stands for.
pub fn spec_value(v: &Value) -> f64 {
    match v["class"].as_str().unwrap() {
        "finite" => qnum(&v["v"]),
        "root" => qnum(&v["num"]) / qnum(&v["var"]).sqrt(),
        "nan" => f64::NAN,
        "inf" => f64::INFINITY,
        "-inf" => f64::NEG_INFINITY,
        other => panic!("class {other}"),
    }
}

pub fn stat_close(got: f64, want: f64, tol: f64) -> bool {
    if want.is_nan() { got.is_nan() } else if want.is_infinite() { got == want } else { close(got, want, tol) }
}

fn check_all(out: &mut Outcome, ctx: &Ctx, scs_text: &[u8], scs: &Scs, stats: &serde_json::Map<String, Value>, tag: &str) {
    for (name, v) in stats {
        let want = spec_value(v);
        // a D statistic whose variance term is zero is 0/0 or x/0: compared as a class only
        match guarded(|| lib_stat(name, scs)) {
            Ok(Ok(got)) => out.check(stat_close(got, want, 1e-9), || format!("stats/{tag}/lib/{name}"), || json!({"got": got.to_string(), "want": want.to_string(), "spec": v})),
            Ok(Err(e)) => out.fail(format!("stats/{tag}/lib-error/{name}"), json!({"error": e})),
            Err(p) => out.fail(format!("stats/{tag}/lib-panic/{name}"), json!({"panic": p})),
        }
    }
    // the binary: all statistics in one invocation, and one by one through the header
    let names: Vec<&str> = stats.keys().map(|k| cli_name(k)).collect();
    let joined = names.join(",");
    let r = cli::sfs(ctx, &["stat", "-s", &joined, "--precision", "12", "-H"], Some(scs_text));
    if !r.ok() {
        out.fail(format!("stats/{tag}/cli-{}", if r.panicked() { "panic" } else { "error" }), json!({"stats": joined, "code": r.code, "stderr": r.stderr}));
        return;
    }
    let text = String::from_utf8_lossy(&r.stdout).to_string();
    let lines: Vec<&str> = text.lines().collect();
    out.check(lines.len() == 2 && lines[0].split(',').count() == stats.len(), || format!("stats/{tag}/cli-layout"), || json!({"stdout": text}));
    if lines.len() == 2 {
        for ((name, v), tok) in stats.iter().zip(lines[1].split(',')) {
            let want = spec_value(v);
            let got: f64 = tok.parse().unwrap_or(f64::NAN);
            let ok = if want.is_finite() { (got - want).abs() <= 0.5e-12 + 1e-9 * want.abs().max(1.0) } else { stat_close(got, want, 0.0) };
            out.check(ok, || format!("stats/{tag}/cli/{name}"), || json!({"got": tok, "want": want.to_string()}));
        }
    }
}

pub fn run(case: &Value, ctx: &Ctx) -> Outcome {
    let mut out = Outcome::default();
    let kind = case["kind"].as_str().unwrap();
    out.tag(format!("kind:{kind}"));
    let empty = serde_json::Map::new();
    let stats = case["stats"].as_object().unwrap_or(&empty);
    match kind {
        "geno" => {
            let pops = usizes(&case["pops"]);
            let sites: Vec<Vec<usize>> = case["sites"].as_array().unwrap().iter().map(usizes).collect();
            out.nontrivial = Some(format!("{pops:?}/{sites:?}"));
            out.tag(format!("pops:{}", pops.len()));
            let n: usize = pops.iter().sum();
            let cols: Vec<String> = (0..n).map(|i| format!("i{i}")).collect();
            let mut labels = Vec::new();
            for (j, &size) in pops.iter().enumerate() {
                for _ in 0..size {
                    labels.push(format!("P{j}"));
                }
            }
            let recs: Vec<gen::Rec> = sites.iter().enumerate().map(|(r, g)| gen::Rec {
                contig: "chr1".into(), pos: (r + 1) as u64, bad: false, nogt: false, short_alt: false,
                gt: cols.iter().cloned().zip(g.iter().enumerate().map(|(i, &x)| match x { 0 => "0/0", 1 => if (i + r) % 2 == 0 { "0/1" } else { "1|0" }, _ => "1/1" }.to_string())).collect(),
            }).collect();
            let vcf = gen::vcf_text(&cols, &recs, false);
            let arg = cols.iter().zip(&labels).map(|(c, l)| format!("{c}={l}")).collect::<Vec<_>>().join(",");
            let r = cli::sfs(ctx, &["create", "-s", &arg], Some(vcf.as_bytes()));
            if !r.ok() {
                out.fail("stats/geno/create-failed", json!({"stderr": r.stderr}));
                return out;
            }
            match cli::parse_text(&r.stdout) {
                Ok((shape, values)) => {
                    let scs = Scs::new(values, shape).unwrap();
                    check_all(&mut out, ctx, &r.stdout, &scs, stats, "geno");
                }
                Err(e) => out.fail("stats/geno/create-unparsable", json!({"error": e})),
            }
        }
        "estimator" => {
            let n = case["n"].as_u64().unwrap() as usize;
            let cells: Vec<f64> = case["cells"].as_array().unwrap().iter().map(qnum).collect();
            out.nontrivial = Some(format!("{n}/{}", case["pattern"].as_str().unwrap()));
            let shape = case.get("shape").map(usizes).unwrap_or_else(|| vec![n + 1]);
            out.nontrivial = Some(format!("{shape:?}/{}/{}", case["pattern"].as_str().unwrap(), case["cells"][1]));
            let text = cli::write_text(&shape, &cells, 0);
            let scs = Scs::new(cells, shape).unwrap();
            check_all(&mut out, ctx, &text, &scs, stats, "estimator");
        }
        "layout" => {
            let shape = usizes(&case["shape"]);
            let cells: Vec<f64> = case["cells"].as_array().unwrap().iter().map(qnum).collect();
            let names: Vec<&str> = case["stats"].as_array().unwrap().iter().map(|s| cli_name(s.as_str().unwrap())).collect();
            let precs: Vec<String> = case["precs"].as_array().unwrap().iter().map(|p| p.to_string()).collect();
            let delim = case["delim"].as_str().unwrap();
            let header = case["header"].as_bool().unwrap();
            out.nontrivial = Some(format!("{shape:?}/{names:?}/{precs:?}/{header}/{delim}"));
            let text = cli::write_text(&shape, &cells, 0);
            let (sj, pj) = (names.join(","), precs.join(","));
            let mut args = vec!["stat", "-s", &sj, "--precision", &pj, "-d", delim];
            if header {
                args.push("-H");
            }
            let r = cli::sfs(ctx, &args, Some(&text));
            let want_exit = case["exit"].as_i64().unwrap();
            let want_lines: Vec<&str> = case["lines"].as_array().unwrap().iter().map(|l| l.as_str().unwrap()).collect();
            if r.panicked() {
                out.fail("stats/layout/panic", json!({"args": args, "stderr": r.stderr}));
            } else if want_exit == 0 {
                let got = String::from_utf8_lossy(&r.stdout).to_string();
                let got_lines: Vec<&str> = got.lines().collect();
                out.check(r.ok() && got_lines == want_lines && got.ends_with('\n'), || "stats/layout/stdout".into(), || json!({"args": args, "got": got, "want": want_lines, "stderr": r.stderr}));
            } else {
                // nothing but what the model allows before the failure (at most the header line), and never a row
                let got = String::from_utf8_lossy(&r.stdout).to_string();
                let got_lines: Vec<&str> = got.lines().collect();
                // (a tool that computes everything first and writes nothing at all on failure is just as right)
                out.check(!r.ok() && (got_lines == want_lines || got_lines.is_empty()) && !r.stderr.trim().is_empty(), || "stats/layout/error-case".into(), || json!({"args": args, "code": r.code, "stdout": String::from_utf8_lossy(&r.stdout), "stderr": r.stderr}));
            }
        }
        other => out.fail("stats/unknown-kind", json!(other)),
    }
    out
}
