//! sfs-conform: binds the TLA+ specification in /verif/spec to the real sfs code.
//!
//!   sfs-conform replay <family> <cases.ndjson> <result.json>
//!       spec -> impl: every line is one behaviour/table emitted by TLC; it is executed against
//!       the real library / binary and every recorded observation is compared.
//!   sfs-conform record <family> <out.ndjson> [args..]
//!       impl -> spec: drive the real code and write an NDJSON trace for a *Trace.tla spec.
//!   sfs-conform gen <what> ...
//!       file synthesis helpers (VCF, BCF, BGZF layouts, npy variants).

use std::{
    fs,
    io::{BufRead, BufReader},
    sync::{Arc, Mutex},
};

use serde_json::{json, Value};

mod cli;
mod common;
mod fam_array;
mod fam_arraymem;
mod fam_cli;
mod fam_cliargs;
mod fam_container;
mod fam_create;
mod fam_createlarge;
mod gen;
mod fam_fold;
mod fam_large;
mod fam_marginalize;
mod fam_npy;
mod fam_project;
mod fam_stats;
mod fam_statrel;
mod fam_stream;
mod sched;
mod fam_text;
mod fam_textgrammar;
mod fam_toolchain;
mod fam_view;
mod symbolic;

pub use common::*;

thread_local! {
    static LAST_PANIC_AT: std::cell::RefCell<String> = std::cell::RefCell::new(String::new());
}

fn main() {
    // A panic of the code under test is data: keep stderr quiet, the families use catch_unwind.
    // (the location of the last panic is kept per thread, for the report of a family that dies outside catch_unwind)
    std::panic::set_hook(Box::new(|info| {
        let loc = info.location().map(|l| format!("{}:{}", l.file(), l.line())).unwrap_or_default();
        LAST_PANIC_AT.with(|c| *c.borrow_mut() = loc);
    }));

    let args: Vec<String> = std::env::args().collect();
    if args.len() < 2 {
        eprintln!("usage: sfs-conform replay|record|gen ...");
        std::process::exit(2);
    }
    let code = match args[1].as_str() {
        "replay" => replay(&args[2..]),
        "gen" => gen_cmd(&args[2..]),
        "record" => record_cmd(&args[2..]),
        other => {
            eprintln!("unknown command {other}");
            2
        }
    };
    std::process::exit(code);
}

type Runner = fn(&Value, &Ctx) -> Outcome;

fn family(name: &str) -> Option<Runner> {
    if name == "cli" {
        cli::LIMIT_CHILDREN.store(true, std::sync::atomic::Ordering::Relaxed);
    }
    Some(match name {
        "array" => fam_array::run,
        "arraymem" => fam_arraymem::run,
        "cli" => fam_cli::run,
        "cliargs" => fam_cliargs::run,
        "container" => fam_container::run,
        "create" => fam_create::run,
        "createlarge" => fam_createlarge::run,
        "fold" => fam_fold::run,
        "large" => fam_large::run,
        "marginalize" => fam_marginalize::run,
        "npy" => fam_npy::run,
        "project" => fam_project::run,
        "stats" => fam_stats::run,
        "statrel" => fam_statrel::run,
        "stream" => fam_stream::run,
        "text" => fam_text::run,
        "textgrammar" => fam_textgrammar::run,
        "toolchain" => fam_toolchain::run,
        "view" => fam_view::run,
        _ => return None,
    })
}

fn replay(args: &[String]) -> i32 {
    if args.len() < 3 {
        eprintln!("usage: sfs-conform replay <family> <cases.ndjson> <result.json>");
        return 2;
    }
    let Some(run) = family(&args[0]) else {
        eprintln!("unknown family {}", args[0]);
        return 2;
    };
    let ctx = Ctx::from_env();
    let file = match fs::File::open(&args[1]) {
        Ok(f) => f,
        Err(e) => {
            eprintln!("cannot open {}: {e}", args[1]);
            return 2;
        }
    };
    let cases: Vec<Value> = BufReader::new(file)
        .lines()
        .map_while(Result::ok)
        .filter(|l| !l.trim().is_empty())
        .map(|l| serde_json::from_str(&l).expect("case is not JSON"))
        .collect();

    let n = cases.len();
    let cases = Arc::new(cases);
    let next = Arc::new(Mutex::new(0usize));
    let agg = Arc::new(Mutex::new(Agg::default()));
    let threads = ctx.threads.max(1);
    let mut handles = Vec::new();
    for _ in 0..threads {
        let (cases, next, agg, ctx) = (cases.clone(), next.clone(), agg.clone(), ctx.clone());
        let args_family = args[0].clone();
        handles.push(std::thread::spawn(move || loop {
            let i = {
                let mut g = next.lock().unwrap();
                let i = *g;
                *g += 1;
                i
            };
            if i >= cases.len() {
                break;
            }
            // A family that panics while digesting what the implementation returned (an unwrap on output it did not expect)
            // is reported as a failure of that case, with message and location - not as a dead worker thread.
            let out = match guarded(|| run(&cases[i], &ctx)) {
                Ok(o) => o,
                Err(msg) => {
                    let mut o = Outcome::default();
                    let at = LAST_PANIC_AT.with(|c| c.borrow().clone());
                    o.fail(format!("{}/replay-could-not-digest-the-implementation-output", args_family), json!({"panic": msg, "at": at}));
                    o
                }
            };
            let mut a = agg.lock().unwrap();
            a.absorb(i, &cases[i], out);
        }));
    }
    for h in handles {
        h.join().expect("worker thread died");
    }
    let agg = Arc::try_unwrap(agg).unwrap().into_inner().unwrap();
    let result = json!({
        "family": args[0],
        "cases": n,
        "checks": agg.checks,
        "nontrivial": agg.nontrivial.len(),
        "tags": agg.tags,
        "failures": agg.failures,
        "failures_total": agg.failures_total,
        "samples": agg.samples,
    });
    fs::write(&args[2], serde_json::to_string_pretty(&result).unwrap()).expect("write result");
    0
}

/// sfs-conform gen bcf <in.vcf> <out.bcf>            raw (uncompressed) BCF via the noodles writer
/// sfs-conform gen bgzf <in> <out> <block size>      BGZF with fixed-size blocks
fn gen_cmd(args: &[String]) -> i32 {
    match args.first().map(|s| s.as_str()) {
        Some("bcf") if args.len() == 3 => {
            let text = fs::read_to_string(&args[1]).expect("read vcf");
            match gen::raw_bcf(&text) {
                Ok(b) => {
                    fs::write(&args[2], b).expect("write");
                    0
                }
                Err(e) => {
                    eprintln!("bcf encoding failed: {e}");
                    2
                }
            }
        }
        Some("streamfiles") => {
            // lengths (and as-built inflate thresholds) of the real files behind MCTransport
            let names = ["npy_ok", "npy_midvalue", "npy_short", "npy_header_cut", "npy_u1", "npy_i2", "npy_u1_short", "npy_v2", "npy_v3", "vcf", "vcf_gz", "bcf_raw", "bcf_gz", "empty", "w_text", "w_npy", "big_vcf", "big_vcf_gz", "big_bcf_gz", "vcf_gz_cut", "bcf_gz_cut", "bcf_raw_cut",
                "ps_text_small", "ps_npy_small", "ps_text_big", "ps_npy_big", "pp_text_small", "pp_npy_small", "pp_text_big", "pp_npy_big"];
            let v: Vec<Value> = names.iter().map(|n| {
                let b = fam_stream::stream_file(n);
                let gz = b.starts_with(&[0x1f, 0x8b]);
                json!({"name": n, "len": b.len(), "gz": gz, "need": if gz { fam_stream::inflate_need(&b) } else { 3 },
                       "head": b.iter().position(|c| *c == b'\n').map(|i| i + 1).unwrap_or(0)})
            }).collect();
            println!("{}", serde_json::to_string(&v).unwrap());
            0
        }
        Some("smallbcf") if args.len() == 2 => {
            // the base BCF file of the cli family's mutation scenarios
            let cols: Vec<String> = ["a", "b", "c"].iter().map(|s| s.to_string()).collect();
            let rows = [["0/1", "1/1", "0/0"], ["0/0", "0|1", "./."], ["1/1", "0/1", "1/2"]];
            let recs: Vec<gen::Rec> = rows.iter().enumerate().map(|(i, r)| gen::Rec {
                contig: "chr1".into(), pos: (i + 1) as u64, bad: false, nogt: false, short_alt: false,
                gt: cols.iter().cloned().zip(r.iter().map(|s| s.to_string())).collect(),
            }).collect();
            fs::write(&args[1], gen::own_bcf(&cols, &recs)).expect("write");
            0
        }
        Some("bgzf") if args.len() == 4 => {
            let data = fs::read(&args[1]).expect("read");
            fs::write(&args[2], gen::bgzf_chunks(&data, args[3].parse().expect("size"))).expect("write");
            0
        }
        _ => {
            eprintln!("usage: sfs-conform gen bcf|bgzf ...");
            2
        }
    }
}

/// sfs-conform record create <trace.ndjson>
/// impl -> spec: run the real `sfs create` (built with the trace hook) on the repository's fixtures and on
/// pseudo-random cohorts; every run appends its events to the trace file.  Prints a JSON summary.
fn record_cmd(args: &[String]) -> i32 {
    if args.len() != 2 || args[0] != "create" {
        eprintln!("usage: sfs-conform record create <trace.ndjson>");
        return 2;
    }
    let ctx = Ctx::from_env();
    let trace = &args[1];
    let _ = fs::remove_file(trace);
    let fixtures_dir = format!("{}/cli/tests/create", std::env::var("VERIF_REPO").unwrap_or_else(|_| "/repo".into()));
    let fixtures = fixtures_dir.as_str();
    let mut runs: Vec<(Vec<String>, Option<Vec<u8>>)> = Vec::new();
    let f = |name: &str| format!("{fixtures}/{name}");
    for (file, opts) in [
        ("simple.vcf", vec![]), ("simple.bcf", vec![]), ("simple.vcf.gz", vec!["-s", "sample0=A,sample1=A,sample2=B,sample3=B,sample4=B"]),
        ("missing.bcf", vec![]), ("missing.bcf", vec!["--strict"]), ("missing.bcf", vec!["--project-individuals", "2"]),
        ("missing.bcf", vec!["--project-individuals", "1,1", "-s", "sample0=A,sample1=B,sample2=A,sample4=B"]),
        ("missing.bcf", vec!["-s", "sample0=A,sample1=B,sample2=C"]), ("large.bcf", vec![]), ("large.bcf", vec!["--project-individuals", "3"]),
        ("large.bcf", vec!["--strict"]),
    ] {
        if std::path::Path::new(&f(file)).exists() {
            let mut a: Vec<String> = vec!["create".into()];
            a.extend(opts.iter().map(|s| s.to_string()));
            a.push(f(file));
            runs.push((a, None));
        }
    }
    let seed = ctx.seed;
    let big = std::env::var("RECORD_BIG").is_ok();
    let cohorts: Vec<(usize, usize, u64, u64, usize)> = if big {
        vec![(12, 400, 5, 1, 2), (40, 1500, 20, 2, 3), (400, 600, 10, 0, 4), (120, 5000, 40, 3, 2), (30, 2000, 0, 0, 1)]
    } else {
        vec![(8, 120, 10, 2, 2), (24, 300, 25, 1, 3), (60, 200, 5, 0, 4)]
    };
    for (ci, (ns, nr, miss, multi, npops)) in cohorts.iter().enumerate() {
        let (cols, vcf) = fam_container::cohort_vcf(seed.wrapping_add(ci as u64 * 977), *ns, *nr, *miss, *multi);
        let arg = cols.iter().enumerate().map(|(i, c)| format!("{c}=P{}", i % npops)).collect::<Vec<_>>().join(",");
        let per_pop = ns / npops;
        let proj_small: String = (0..*npops).map(|_| "3".to_string()).collect::<Vec<_>>().join(",");
        let proj_exact: String = (0..*npops).map(|j| (2 * (per_pop + usize::from(j < ns % npops)) + 1).to_string()).collect::<Vec<_>>().join(",");
        let mut optsets = vec![vec!["-s".to_string(), arg.clone()], vec!["-s".into(), arg.clone(), "--strict".into()],
                               vec!["-s".into(), arg.clone(), "--project-shape".into(), proj_small]];
        // projecting to the full size is only affordable when the spectrum stays small
        let cells: f64 = (0..*npops).map(|j| (2 * (per_pop + usize::from(j < ns % npops)) + 1) as f64).product();
        if cells <= 2e5 {
            optsets.push(vec!["-s".into(), arg.clone(), "--project-shape".into(), proj_exact]);
        }
        // without projection the spectrum has the full shape as well
        if cells > 5e6 {
            optsets.retain(|o| o.iter().any(|x| x == "--project-shape"));
        }
        for opts in optsets {
            let mut a: Vec<String> = vec!["create".into()];
            a.extend(opts);
            runs.push((a, Some(vcf.clone().into_bytes())));
        }
    }
    let mut summary = Vec::new();
    for (args, stdin) in &runs {
        let a: Vec<&str> = args.iter().map(|s| s.as_str()).collect();
        let r = cli::sfs_env(&ctx, &a, stdin.as_deref(), &[("SFS_VERIF_TRACE", trace.as_str())]);
        summary.push(json!({"args": args.iter().map(|s| if s.len() > 60 { format!("{}...", &s[..60]) } else { s.clone() }).collect::<Vec<_>>(), "code": r.code, "stdout_bytes": r.stdout.len(), "panicked": r.panicked()}));
    }
    println!("{}", serde_json::to_string(&json!({"runs": summary})).unwrap());
    0
}
