//! Family `large` (SpectrumLarge.tla): marginalization and folding of concrete spectra with more than 2^16 cells.
//! The spectrum is rebuilt from the specification's Pattern; the expected entries are integers computed by TLC.

use serde_json::{json, Value};
use sfs_core::{array::Axis, Scs};

use crate::{cli, common::*};

fn pattern(p: usize) -> f64 {
    (((p * 7 + 3) % 11) + if p % 13 == 0 { 5 } else { 0 }) as f64
}

pub fn run(case: &Value, ctx: &Ctx) -> Outcome {
    let mut out = Outcome::default();
    let op = case["op"].as_str().unwrap();
    let shape = usizes(&case["shape"]);
    let out_shape = usizes(&case["out_shape"]);
    let want: Vec<i64> = case["out"].as_array().unwrap().iter().map(|x| x.as_i64().unwrap()).collect();
    let n: usize = shape.iter().product();
    let cells: Vec<f64> = (0..n).map(pattern).collect();
    out.nontrivial = Some(format!("{op}/{shape:?}/{}", case["remove"]));
    out.tag(format!("op:{op}"));
    let scs = Scs::new(cells.clone(), shape.clone()).expect("shape");
    let npy = cli::write_npy(&shape, &cells);
    let first_diff = |got: &[f64], f: &dyn Fn(i64) -> f64| -> Option<Value> {
        if got.len() != want.len() {
            return Some(json!({"got_len": got.len(), "want_len": want.len()}));
        }
        got.iter().zip(&want).position(|(g, w)| { let e = f(*w); !(g.to_bits() == e.to_bits() || (g.is_nan() && e.is_nan())) })
            .map(|i| json!({"at": i, "got": got[i], "want": f(want[i])}))
    };
    match op {
        "marg" => {
            let mut remove: Vec<usize> = usizes(&case["remove"]);
            remove.sort();
            let exact = |w: i64| w as f64;
            // library, axes as given and in descending order
            for (tag, axes) in [("asc", remove.clone()), ("desc", remove.iter().rev().copied().collect::<Vec<_>>())] {
                let ax: Vec<Axis> = axes.iter().map(|a| Axis(*a)).collect();
                match guarded(|| scs.marginalize(&ax).map(|s| (s.shape().as_ref().to_vec(), s.inner().as_slice().to_vec())).map_err(|e| e.to_string())) {
                    Ok(Ok((s, v))) => {
                        out.check(s == out_shape, || format!("large/marg/lib-shape/{tag}"), || json!({"got": s, "want": out_shape, "remove": axes}));
                        let d = first_diff(&v, &exact);
                        out.check(d.is_none(), || format!("large/marg/lib-values/{tag}"), || json!({"shape": shape, "remove": axes, "first_difference": d}));
                    }
                    Ok(Err(e)) => out.fail(format!("large/marg/lib-error/{tag}"), json!({"error": e, "remove": axes})),
                    Err(p) => out.fail(format!("large/marg/lib-panic/{tag}"), json!({"panic": p, "remove": axes})),
                }
            }
            // binary: -m with the removed axes, -M with the kept ones
            let rm = remove.iter().map(|a| a.to_string()).collect::<Vec<_>>().join(",");
            let keep = (0..shape.len()).filter(|a| !remove.contains(a)).map(|a| a.to_string()).collect::<Vec<_>>().join(",");
            for (flag, val) in [("-m", rm), ("-M", keep)] {
                let r = cli::sfs(ctx, &["view", flag, &val, "-O", "npy"], Some(&npy));
                match (r.ok(), cli::parse_npy(&r.stdout)) {
                    (true, Ok((s, v))) => {
                        out.check(s == out_shape, || format!("large/marg/cli-shape/{flag}"), || json!({"got": s, "want": out_shape, "arg": val}));
                        let d = first_diff(&v, &exact);
                        out.check(d.is_none(), || format!("large/marg/cli-values/{flag}"), || json!({"shape": shape, "arg": val, "first_difference": d}));
                    }
                    (_, e) => out.fail(format!("large/marg/cli-{}/{flag}", if r.panicked() { "panic" } else { "error" }), json!({"arg": val, "code": r.code, "stderr": r.stderr.chars().take(300).collect::<String>(), "parse": format!("{:?}", e.err())})),
                }
            }
        }
        "fold" => {
            for (name, fill) in [("zero", 0.0f64), ("minus-one", -1.0), ("nan", f64::NAN)] {
                let expect = move |w: i64| if w < 0 { fill } else { w as f64 / 2.0 };
                match guarded(|| scs.fold().into_spectrum(fill).inner().as_slice().to_vec()) {
                    Ok(v) => {
                        let d = first_diff(&v, &expect);
                        out.check(d.is_none(), || format!("large/fold/lib-values/{name}"), || json!({"shape": shape, "first_difference": d}));
                    }
                    Err(p) => out.fail("large/fold/lib-panic", json!({"panic": p})),
                }
                let r = cli::sfs(ctx, &["fold", "--fill", name, "--precision", "1"], Some(&npy));
                match (r.ok(), cli::parse_text(&r.stdout)) {
                    (true, Ok((s, v))) => {
                        out.check(s == shape, || "large/fold/cli-shape".into(), || json!({"got": s}));
                        let d = first_diff(&v, &expect);
                        out.check(d.is_none(), || format!("large/fold/cli-values/{name}"), || json!({"shape": shape, "first_difference": d}));
                    }
                    (_, e) => out.fail(format!("large/fold/cli-{}", if r.panicked() { "panic" } else { "error" }), json!({"code": r.code, "stderr": r.stderr.chars().take(300).collect::<String>(), "parse": format!("{:?}", e.err())})),
                }
            }
        }
        other => out.fail("large/unknown-op", json!(other)),
    }
    out
}
