//! Family `stream` (C18): schedules and failure offsets from Transport.tla replayed on
//! Array::read_npy, the genotype reader (hook build_from_bufread), and the spectrum writer.

use serde_json::{json, Value};
use sfs_core::{
    input::{genotype, site::{self, Site}, ReadStatus},
    spectrum::io::{write, Format},
    Array, Scs,
};

use crate::{cli, common::*, fam_npy, gen, sched::{SchedReader, SchedWriter}};

/// The real files behind the abstract files of MCTransport: name -> bytes.
pub fn stream_file(name: &str) -> Vec<u8> {
    let header = "{'descr': '<f8', 'fortran_order': False, 'shape': (3,), }                                                            \n";
    let vals = [1.5f64, -2.25, 1e300];
    let mut data = Vec::new();
    for v in vals {
        data.extend_from_slice(&v.to_le_bytes());
    }
    let cols: Vec<String> = ["s0", "s1", "s2", "s3"].iter().map(|s| s.to_string()).collect();
    let rows = [["0/1", "1/1", "0/0", "0|1"], ["0/0", "0/1", "1/1", "./."], ["1/1", "1/1", "0/1", "0/0"], ["0/1", "0/0", "0/0", "1/2"],
                ["0/0", "0/0", "0/1", "1|1"], ["1|0", "0|1", "1|1", "0/0"], ["0/0", "1/1", "0/0", "0/1"], ["0/1", "0/1", "0/1", "0/1"]];
    let recs: Vec<gen::Rec> = rows.iter().enumerate().map(|(i, r)| gen::Rec {
        contig: if i < 5 { "chr1".into() } else { "chr2".into() }, pos: (i + 1) as u64, bad: false, nogt: false, short_alt: false,
        gt: cols.iter().cloned().zip(r.iter().map(|s| s.to_string())).collect(),
    }).collect();
    let vcf = gen::vcf_text(&cols, &recs, true);
    match name {
        "npy_ok" => fam_npy::assemble(1, header, &data),
        // one- and two-byte items: an item may be complete in a buffer that holds nothing else
        "npy_u1" => {
            let h = format!("{:<117}\n", "{'descr': '|u1', 'fortran_order': False, 'shape': (24,), }");
            fam_npy::assemble(1, &h, &(0..24u8).map(|i| i.wrapping_mul(37).wrapping_add(9)).collect::<Vec<u8>>())
        }
        "npy_i2" => {
            let h = format!("{:<117}\n", "{'descr': '<i2', 'fortran_order': False, 'shape': (3, 4), }");
            let mut d = Vec::new();
            for i in 0..12i16 { d.extend_from_slice(&(i * 1237 - 5000).to_le_bytes()); }
            fam_npy::assemble(1, &h, &d)
        }
        // header versions 2.0 and 3.0: the header length is FOUR bytes (a read boundary may fall inside it)
        "npy_v2" | "npy_v3" => {
            let h = format!("{:<115}\n", "{'descr': '<f8', 'fortran_order': False, 'shape': (3,), }");
            fam_npy::assemble(if name == "npy_v2" { 2 } else { 3 }, &h, &data)
        }
        "npy_u1_short" => {
            let h = format!("{:<117}\n", "{'descr': '|u1', 'fortran_order': False, 'shape': (24,), }");
            fam_npy::assemble(1, &h, &(0..23u8).collect::<Vec<u8>>())
        }
        "npy_midvalue" => { let mut b = fam_npy::assemble(1, header, &data); b.truncate(b.len() - 3); b }
        "npy_short" => { let mut b = fam_npy::assemble(1, header, &data); b.truncate(b.len() - 8); b }
        "npy_header_cut" => { let mut b = fam_npy::assemble(1, header, &data); b.truncate(60); b }
        "vcf" => vcf.into_bytes(),
        "vcf_gz" => gen::bgzf_chunks(vcf.as_bytes(), 300),
        "bcf_raw" => gen::own_bcf(&cols, &recs),
        "bcf_gz" => gen::bgzf_chunks(&gen::own_bcf(&cols, &recs), 256),
        "empty" => Vec::new(),
        // containers cut off in the middle of a block / record: must be errors, never a shorter call set
        "vcf_gz_cut" => { let mut b = gen::bgzf_chunks(vcf.as_bytes(), 300); b.truncate(b.len() * 3 / 5); b }
        "bcf_gz_cut" => { let mut b = gen::bgzf_chunks(&gen::own_bcf(&cols, &recs), 256); b.truncate(b.len() * 3 / 5); b }
        "bcf_raw_cut" => { let mut b = gen::own_bcf(&cols, &recs); b.truncate(b.len() - 7); b }
        // larger than the reader's 64 KiB look-ahead: a cohort of 100 samples x 1100 records
        "big_vcf" | "big_vcf_gz" | "big_bcf_gz" => {
            let (bcols, btext) = crate::fam_container::cohort_vcf(4242, 100, 1100, 8, 1);
            match name {
                "big_vcf" => btext.into_bytes(),
                "big_vcf_gz" => gen::bgzf_chunks(btext.as_bytes(), 30000),
                _ => {
                    // parse the text back into records for the BCF encoder
                    let recs: Vec<gen::Rec> = btext.lines().filter(|l| !l.starts_with('#')).map(|l| {
                        let f: Vec<&str> = l.split('\t').collect();
                        gen::Rec { contig: f[0].into(), pos: f[1].parse().unwrap(), bad: false, nogt: false, short_alt: false,
                            gt: bcols.iter().cloned().zip(f[9..].iter().map(|s| s.to_string())).collect() }
                    }).collect();
                    gen::bgzf_chunks(&gen::own_bcf(&bcols, &recs), 20000)
                }
            }
        }
        "w_text" | "w_npy" => {
            let scs = Scs::new((0..15).map(|i| i as f64 * 1.25).collect::<Vec<_>>(), vec![5usize, 3]).unwrap();
            let mut out = Vec::new();
            write::Builder::default().set_format(if name == "w_npy" { Format::Npy } else { Format::Text }).set_precision(6).write(&mut out, &scs).unwrap();
            out
        }
        n if n.starts_with("ps_") || n.starts_with("pp_") => {
            let mut out = Vec::new();
            write::Builder::default().set_format(if n.contains("npy") { Format::Npy } else { Format::Text }).set_precision(6).write(&mut out, &proc_spectrum(n)).unwrap();
            out
        }
        other => panic!("unknown stream file {other}"),
    }
}

/// the spectrum a process-sink file (ps_* = stdout, pp_* = -o PATH) is the rendering of: small = 5 x 3, big = 70 x 70
/// (larger than any buffer a writer is likely to put in front of its sink)
pub fn proc_spectrum(name: &str) -> Scs {
    if name.ends_with("small") {
        Scs::new((0..15).map(|i| i as f64 * 1.25).collect::<Vec<_>>(), vec![5usize, 3]).unwrap()
    } else {
        // values chosen so that the npy bytes contain few 0x0a bytes: a line-buffered stdout then holds a long tail
        Scs::new((0..4900).map(|i| (i % 977) as f64 * 0.5 + 1.0).collect::<Vec<_>>(), vec![70usize, 70]).unwrap()
    }
}

/// bytes of the compressed stream needed before three bytes can be inflated (as-built detection threshold)
pub fn inflate_need(bytes: &[u8]) -> usize {
    use std::io::Read;
    for n in 1..=bytes.len() {
        let mut d = flate2::bufread::MultiGzDecoder::new(&bytes[..n]);
        let mut b = [0u8; 3];
        if d.read_exact(&mut b).is_ok() {
            return n;
        }
    }
    bytes.len()
}

fn create_from<R: 'static + std::io::BufRead>(reader: R) -> Result<Vec<f64>, String> {
    let g = genotype::reader::Builder::default().build_from_bufread(reader).map_err(|e| format!("open: {e}"))?;
    let mut r = site::reader::Builder::default().build(g).map_err(|e| format!("build: {e}"))?;
    let mut scs = r.create_zero_scs();
    loop {
        match r.read_site() {
            ReadStatus::Read(Site::Standard(c)) => {
                let idx: Vec<usize> = AsRef::<[usize]>::as_ref(c).to_vec();
                scs[&idx] += 1.0;
            }
            ReadStatus::Read(Site::Projected(p)) => p.add_unchecked(&mut scs),
            ReadStatus::Read(Site::InsufficientData) => {}
            ReadStatus::Error(e) => return Err(format!("read: {e}")),
            ReadStatus::Done => break,
        }
    }
    Ok(scs.inner().as_slice().to_vec())
}

pub fn run(case: &Value, ctx: &Ctx) -> Outcome {
    let mut out = Outcome::default();
    let f = &case["file"];
    let name = f["name"].as_str().unwrap();
    let mode = f["mode"].as_str().unwrap();
    let first = case["first"].as_u64().unwrap() as usize;
    let later = case["later"].as_u64().unwrap() as usize;
    let fail_at = case["fail_at"].as_i64().unwrap();
    let fail = if fail_at >= 0 { Some(fail_at as usize) } else { None };
    let want_ok = case["expected"]["ok"].as_bool().unwrap();
    let bytes = stream_file(name);
    if bytes.len() as u64 != f["len"].as_u64().unwrap() {
        out.fail("stream/tool/model-length-mismatch", json!({"name": name, "real": bytes.len(), "model": f["len"]}));
        return out;
    }
    out.nontrivial = Some(format!("{name}/{first}/{later}/{fail_at}"));
    out.tag(format!("mode:{mode}"));
    out.tag(format!("fail:{}", fail.is_some()));
    let class = |first: usize| if first < 2 { "lt2" } else if first < 3 { "lt3" } else { "short" };
    match mode {
        "npy" => {
            let reference = Array::read_npy(&bytes[..]).map(|a| a.as_slice().to_vec()).map_err(|e| e.to_string());
            let rd = SchedReader::new(bytes.clone(), first, later, fail);
            let log = rd.log.clone();
            let got = guarded(|| Array::read_npy(rd).map(|a| a.as_slice().to_vec()).map_err(|e| e.to_string()));
            match got {
                Err(p) => out.fail("stream/npy/panic", json!({"panic": p})),
                Ok(res) => {
                    out.check(res.is_ok() == want_ok, || format!("stream/npy/{}", if res.is_ok() { "ok-but-should-fail" } else { "failed-but-should-succeed" }),
                        || json!({"name": name, "first": first, "later": later, "fail_at": fail_at, "result": format!("{res:?}"), "calls": log.lock().unwrap().calls.len()}));
                    if fail.is_none() {
                        out.check(res.clone().ok() == reference.clone().ok(), || "stream/npy/differs-from-unchunked".into(), || json!({"chunked": format!("{res:?}"), "unchunked": format!("{reference:?}")}));
                    }
                    if let Ok(v) = &res {
                        out.check(v.len() as u64 == case["expected"]["items"].as_u64().unwrap_or(u64::MAX), || "stream/npy/item-count".into(), || json!({"got": v.len()}));
                    }
                    // the recorded call history of the underlying reader (ConsumedAllOnOk / NeverOkAfterFailure on the real run)
                    let calls = log.lock().unwrap().calls.clone();
                    let total: usize = calls.iter().filter(|c| c.0 == "read").map(|c| c.1).sum();
                    let saw_eof = calls.iter().any(|c| c.0 == "read" && c.1 == 0);
                    let failed = calls.iter().any(|c| c.0 == "fail");
                    if res.is_ok() {
                        out.check(total == bytes.len() && saw_eof && !failed, || "stream/npy/ok-without-reading-everything".into(),
                            || json!({"bytes_read": total, "file_len": bytes.len(), "saw_eof": saw_eof, "failed_call": failed, "calls": calls.len()}));
                    }
                    if let Some(pos) = calls.iter().position(|c| c.0 == "fail") {
                        out.check(calls[pos + 1..].iter().all(|c| c.0 != "read" || c.1 == 0) && res.is_err(), || "stream/npy/continued-after-failure".into(),
                            || json!({"calls_after_failure": calls.len() - pos - 1, "result_ok": res.is_ok()}));
                    }
                }
            }
        }
        "create" => {
            let reference = create_from(std::io::Cursor::new(bytes.clone()));
            let rd = SchedReader::new(bytes.clone(), first, later, fail);
            let log = rd.log.clone();
            let got = guarded(|| create_from(rd));
            match got {
                Err(p) => out.fail("stream/create/panic", json!({"panic": p})),
                Ok(res) => {
                    out.check(res.is_ok() == want_ok,
                        || if res.is_ok() { "stream/create/ok-but-should-fail".to_string() } else { format!("stream/create/failed-but-should-succeed/{name}/first-chunk-{}", class(first)) },
                        || json!({"name": name, "first": first, "later": later, "fail_at": fail_at, "result": format!("{res:?}")}));
                    if fail.is_none() && want_ok {
                        if let (Ok(a), Ok(b)) = (&res, &reference) {
                            out.check(a == b, || "stream/create/differs-from-unchunked".into(), || json!({"chunked": a, "unchunked": b}));
                        }
                    }
                    let calls = log.lock().unwrap().calls.clone();
                    let total: usize = calls.iter().filter(|c| c.0 == "read").map(|c| c.1).sum();
                    if res.is_ok() {
                        out.check(total == bytes.len() && !calls.iter().any(|c| c.0 == "fail"), || "stream/create/ok-without-reading-everything".into(),
                            || json!({"bytes_read": total, "file_len": bytes.len(), "calls": calls.len()}));
                    }
                }
            }
        }
        "write" if f["via"] != "lib" => {
            // the writer inside the real process; the sink fails at byte offset fail_at (RLIMIT_FSIZE)
            let via_stdout = f["via"] == "stdout";
            let fmt = if name.contains("npy") { "npy" } else { "text" };
            let scs = proc_spectrum(name);
            let input = cli::write_npy(&scs.shape().iter().copied().collect::<Vec<_>>(), scs.inner().as_slice());
            let sink = format!("{}/files/sink_{}_{}_{}", ctx.work, name, fail_at, std::process::id());
            std::fs::create_dir_all(format!("{}/files", ctx.work)).expect("mkdir");
            let limit = if fail_at >= 0 { Some(fail_at as u64) } else { None };
            // a sink that is dead from the first byte, by other failure kinds than the size limit: a pipe nobody reads (EPIPE)
            // and a full device (ENOSPC); every kind of failure must surface
            if via_stdout && fail_at == 0 {
                for kind in ["epipe", "enospc"] {
                    for args in [vec!["view", "-O", fmt, "--precision", "6"], vec!["fold"], vec!["stat", "-s", "sum"], vec!["stat", "-s", "sum", "-H"]] {
                        let r = cli::sfs_dead_stdout(ctx, &args, &input, kind);
                        let d = || json!({"name": name, "args": args, "sink": kind, "code": r.code, "stderr": r.stderr.chars().take(300).collect::<String>()});
                        if r.panicked() {
                            out.fail(format!("stream/process-write/{kind}/panic"), d());
                        } else {
                            out.check(!r.ok(), || format!("stream/process-write/{kind}/ok-but-sink-failed"), d);
                            out.check(r.ok() || !r.stderr.trim().is_empty(), || format!("stream/process-write/{kind}/silent-failure"), d);
                        }
                    }
                }
            }
            for tool in ["view"] {
                let args: Vec<&str> = vec!["view", "-O", fmt, "--precision", "6"];
                let (r, written) = cli::sfs_fsize(ctx, &args, &input, limit, &sink, via_stdout);
                let d = || json!({"name": name, "tool": tool, "fail_at": fail_at, "code": r.code, "stderr": r.stderr.chars().take(300).collect::<String>(), "written": written.len(), "want_len": bytes.len()});
                if r.panicked() {
                    out.fail(format!("stream/process-write/{tool}/panic"), d());
                    continue;
                }
                if want_ok {
                    out.check(r.ok(), || format!("stream/process-write/{tool}/failed-but-should-succeed"), d);
                    if tool == "view" {
                        out.check(written == bytes, || format!("stream/process-write/{tool}/bytes-differ"), d);
                    }
                } else {
                    out.check(!r.ok(), || format!("stream/process-write/{tool}/ok-but-sink-failed"), d);
                    out.check(r.ok() || !r.stderr.trim().is_empty(), || format!("stream/process-write/{tool}/silent-failure"), d);
                }
            }
        }
        "write" => {
            let fmt = if name == "w_npy" { Format::Npy } else { Format::Text };
            let scs = Scs::new((0..15).map(|i| i as f64 * 1.25).collect::<Vec<_>>(), vec![5usize, 3]).unwrap();
            let mut w = SchedWriter::new(first, later, fail);
            let res = guarded(|| write::Builder::default().set_format(fmt).set_precision(6).write(&mut w, &scs).map_err(|e| e.to_string()));
            match res {
                Err(p) => out.fail("stream/write/panic", json!({"panic": p})),
                Ok(r) => {
                    out.check(r.is_ok() == want_ok, || format!("stream/write/{}", if r.is_ok() { "ok-but-should-fail" } else { "failed-but-should-succeed" }),
                        || json!({"name": name, "first": first, "later": later, "fail_at": fail_at, "result": format!("{r:?}")}));
                    if r.is_ok() {
                        out.check(w.accepted == bytes, || "stream/write/bytes-differ".into(), || json!({"accepted": w.accepted.len(), "want": bytes.len(), "calls": w.calls.len()}));
                    }
                }
            }
        }
        other => out.fail("stream/unknown-mode", json!(other)),
    }
    let _ = cli::parse_text;
    out
}
