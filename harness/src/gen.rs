//! Synthesis of input files from abstract scenarios: VCF text, BCF, BGZF with a chosen block layout.

use std::io::Write;

use serde_json::Value;

/// One abstract record: contig, position, one GT string per sample (by name), corruption flag.
#[derive(Clone, Debug)]
pub struct Rec {
    pub contig: String,
    pub pos: u64,
    pub bad: bool,
    /// the record has no GT key at all: FORMAT is DP, every sample column holds a depth
    pub nogt: bool,
    /// the record lists ONE ALT allele whatever its calls refer to
    pub short_alt: bool,
    pub gt: std::collections::BTreeMap<String, String>,
}

pub fn recs_from_json(v: &Value) -> Vec<Rec> {
    v.as_array()
        .map(|a| {
            a.iter()
                .map(|r| Rec {
                    contig: r["contig"].as_str().unwrap().to_string(),
                    pos: r["pos"].as_u64().unwrap(),
                    bad: r["bad"].as_bool().unwrap_or(false),
                    nogt: r["nogt"].as_bool().unwrap_or(false),
                    short_alt: r["short_alt"].as_bool().unwrap_or(false),
                    gt: r["gt"]
                        .as_object()
                        .unwrap()
                        .iter()
                        .map(|(k, v)| (k.clone(), v.as_str().unwrap().to_string()))
                        .collect(),
                })
                .collect()
        })
        .unwrap_or_default()
}

pub fn vcf_header(cols: &[String]) -> String {
    let mut s = String::new();
    s.push_str("##fileformat=VCFv4.3\n");
    s.push_str("##FILTER=<ID=PASS,Description=\"All filters passed\">\n");
    s.push_str("##FILTER=<ID=q10,Description=\"Quality below 10\">\n");
    s.push_str("##contig=<ID=chr1,length=100000>\n##contig=<ID=chr2,length=100000>\n");
    s.push_str("##INFO=<ID=DP,Number=1,Type=Integer,Description=\"Depth\">\n");
    s.push_str("##FORMAT=<ID=GT,Number=1,Type=String,Description=\"Genotype\">\n");
    s.push_str("##FORMAT=<ID=DP,Number=1,Type=Integer,Description=\"Depth\">\n");
    s.push_str("#CHROM\tPOS\tID\tREF\tALT\tQUAL\tFILTER\tINFO\tFORMAT");
    for c in cols {
        s.push('\t');
        s.push_str(c);
    }
    s.push('\n');
    s
}

/// `extra`: also write INFO and a second FORMAT field (must not matter to the result).
pub fn vcf_record(cols: &[String], r: &Rec, index: usize, extra: bool) -> String {
    let max_allele = r
        .gt
        .values()
        .flat_map(|g| g.split(|c| c == '/' || c == '|').filter_map(|a| a.parse::<u32>().ok()).collect::<Vec<_>>())
        .max()
        .unwrap_or(0);
    let alts = ["C", "G", "T", "AA", "AC", "AG"];
    // a site without any ALT allele in the calls is written with ALT "." every other time (invariant-site style)
    let n_alt = if r.short_alt { 1 } else if max_allele == 0 && index % 2 == 0 { 0 } else { max_allele.max(1) };
    let alt: Vec<&str> = if n_alt == 0 { vec!["."] } else { alts.iter().take(n_alt as usize).copied().collect() };
    let pos = if r.bad && index % 2 == 0 { "notanumber".to_string() } else { r.pos.to_string() };
    let mut s = format!(
        "{}\t{}\t.\tA\t{}\t.\t{}\t{}\t{}",
        r.contig,
        pos,
        alt.join(","),
        // the FILTER column is none of the tool's business: '.', PASS and a failing filter alternate
        ["q10", ".", "PASS"][index % 3],
        if extra { "DP=14" } else { "." },
        if r.nogt { "DP" } else if extra { "GT:DP" } else { "GT" }
    );
    for (ci, c) in cols.iter().enumerate() {
        s.push('\t');
        let g = r.gt.get(c).map(|x| x.as_str()).unwrap_or("./.");
        if r.nogt {
            s.push_str(&format!("{}", 5 + ci));
            continue;
        }
        if r.bad && index % 2 == 1 && ci == 0 {
            s.push_str("0/x");
        } else {
            s.push_str(g);
        }
        if extra {
            s.push_str(":7");
        }
    }
    s.push('\n');
    s
}

/// Like `vcf_text`, but the header does NOT declare the GT format key (legal to read: the key is reserved by the format).
pub fn vcf_text_undeclared_gt(cols: &[String], recs: &[Rec], extra: bool) -> String {
    vcf_text(cols, recs, extra).replace("##FORMAT=<ID=GT,Number=1,Type=String,Description=\"Genotype\">\n", "")
}

pub fn vcf_text(cols: &[String], recs: &[Rec], extra: bool) -> String {
    let mut s = vcf_header(cols);
    for (i, r) in recs.iter().enumerate() {
        s.push_str(&vcf_record(cols, r, i, extra));
    }
    s
}

/// BGZF: each element of `blocks` becomes one BGZF block (may be empty); the EOF block is appended.
pub fn bgzf(blocks: &[&[u8]]) -> Vec<u8> {
    let mut out = Vec::new();
    for b in blocks {
        out.extend_from_slice(&bgzf_block(b));
    }
    out.extend_from_slice(&bgzf_block(&[]));
    out
}

pub fn bgzf_block(data: &[u8]) -> Vec<u8> {
    bgzf_block_with(data, 0, 0, 0xff, flate2::Compression::default())
}

/// A BGZF block as a writer other than htslib may produce it: the gzip header fields MTIME, XFL and OS are free (the BGZF
/// specification fixes only ID1, ID2, CM, FLG.FEXTRA and the BC subfield), and so is the compression level (0 = stored).
pub fn bgzf_block_with(data: &[u8], mtime: u32, xfl: u8, os: u8, level: flate2::Compression) -> Vec<u8> {
    let mut b = bgzf_block_level(data, level);
    b[4..8].copy_from_slice(&mtime.to_le_bytes());
    b[8] = xfl;
    b[9] = os;
    b
}

/// All blocks (and the EOF block) written with the given header fields.
pub fn bgzf_chunks_with(data: &[u8], size: usize, mtime: u32, xfl: u8, os: u8, level: flate2::Compression) -> Vec<u8> {
    let mut out = Vec::new();
    for c in data.chunks(size.clamp(1, 60000)) {
        out.extend_from_slice(&bgzf_block_with(c, mtime, xfl, os, level));
    }
    out.extend_from_slice(&bgzf_block_with(&[], mtime, xfl, os, level));
    out
}

fn bgzf_block_level(data: &[u8], level: flate2::Compression) -> Vec<u8> {
    assert!(data.len() < 65280);
    let mut enc = flate2::write::DeflateEncoder::new(Vec::new(), level);
    enc.write_all(data).unwrap();
    let cdata = enc.finish().unwrap();
    let mut crc = flate2::Crc::new();
    crc.update(data);
    let bsize = (cdata.len() + 25) as u16; // total block size - 1
    let mut b = vec![0x1f, 0x8b, 0x08, 0x04, 0, 0, 0, 0, 0x00, 0xff, 0x06, 0x00, b'B', b'C', 0x02, 0x00];
    b.extend_from_slice(&bsize.to_le_bytes());
    b.extend_from_slice(&cdata);
    b.extend_from_slice(&crc.sum().to_le_bytes());
    b.extend_from_slice(&(data.len() as u32).to_le_bytes());
    b
}

/// Split `data` into BGZF blocks of at most `size` bytes.
pub fn bgzf_chunks(data: &[u8], size: usize) -> Vec<u8> {
    let blocks: Vec<&[u8]> = data.chunks(size.clamp(1, 65000)).collect();
    bgzf(&blocks)
}

/// Split text into one BGZF block per line.
pub fn bgzf_lines(text: &[u8], empty_between: bool) -> Vec<u8> {
    let mut blocks: Vec<&[u8]> = Vec::new();
    for l in text.split_inclusive(|&b| b == b'\n') {
        blocks.push(l);
        if empty_between {
            blocks.push(&[]);
        }
    }
    bgzf(&blocks)
}

/// Uncompressed BCF bytes for a VCF text, encoded with the noodles-bcf writer.
pub fn raw_bcf(vcf: &str) -> Result<Vec<u8>, String> {
    use noodles_bcf as bcf;
    use noodles_vcf as vcf;
    let mut reader = vcf::Reader::new(vcf.as_bytes());
    let header = reader.read_header().map_err(|e| e.to_string())?;
    let mut writer = bcf::Writer::from(Vec::new());
    writer.write_header(&header).map_err(|e| e.to_string())?;
    for rec in reader.records(&header) {
        let rec = rec.map_err(|e| e.to_string())?;
        writer.write_record(&header, &rec).map_err(|e| e.to_string())?;
    }
    Ok(writer.into_inner())
}

/// Uncompressed BCF 2.2 bytes written by our own encoder, directly from the BCF specification
/// (no third-party writer in the loop).  FORMAT carries GT only; contigs chr1, chr2.
pub fn own_bcf(cols: &[String], recs: &[Rec]) -> Vec<u8> {
    own_bcf_dict(cols, recs, 0)
}

/// `n_info` INFO keys are declared in front of the FORMAT keys (an annotation-style header): the dictionary index of GT is then
/// n_info + 1, and from 128 on it no longer fits the one-byte typed integer a small header gets away with.
pub fn own_bcf_dict(cols: &[String], recs: &[Rec], n_info: usize) -> Vec<u8> {
    let mut text = String::new();
    text.push_str("##fileformat=VCFv4.3\n");
    text.push_str("##FILTER=<ID=PASS,Description=\"All filters passed\">\n");
    // the contig dictionary index (IDX) need not follow the order of the header lines: for half of the call
    // sets chr1 has IDX 1 and chr2 IDX 0, and records refer to contigs by that index
    let swap = recs.len() % 2 == 1;
    if swap {
        text.push_str("##contig=<ID=chr1,length=100000,IDX=1>\n##contig=<ID=chr2,length=100000,IDX=0>\n");
    } else {
        text.push_str("##contig=<ID=chr1,length=100000>\n##contig=<ID=chr2,length=100000>\n");
    }
    for k in 0..n_info {
        text.push_str(&format!("##INFO=<ID=ANN{k},Number=1,Type=Integer,Description=\"annotation {k}\">\n"));
    }
    text.push_str("##FORMAT=<ID=GT,Number=1,Type=String,Description=\"Genotype\">\n");
    let any_nogt = recs.iter().any(|r| r.nogt);
    if any_nogt {
        text.push_str("##FORMAT=<ID=DP,Number=1,Type=Integer,Description=\"Depth\">\n");
    }
    text.push_str("#CHROM\tPOS\tID\tREF\tALT\tQUAL\tFILTER\tINFO\tFORMAT");
    for c in cols {
        text.push('\t');
        text.push_str(c);
    }
    text.push('\n');
    let mut out = b"BCF\x02\x02".to_vec();
    out.extend_from_slice(&((text.len() + 1) as u32).to_le_bytes());
    out.extend_from_slice(text.as_bytes());
    out.push(0);
    for r in recs {
        let calls: Vec<Vec<(Option<u32>, bool)>> = cols
            .iter()
            .map(|c| parse_gt(r.gt.get(c).map(|s| s.as_str()).unwrap_or("./.")))
            .collect();
        let max_allele = if r.nogt || r.short_alt { 1 } else { calls.iter().flatten().filter_map(|(a, _)| *a).max().unwrap_or(1).max(1) };
        let ploidy = calls.iter().map(|c| c.len()).max().unwrap_or(2).max(1);
        let alts = ["C", "G", "T", "AA", "AC", "AG"];
        let mut shared = Vec::new();
        let chrom: i32 = if (r.contig == "chr1") != swap { 0 } else { 1 };
        shared.extend_from_slice(&chrom.to_le_bytes());
        shared.extend_from_slice(&((r.pos as i32) - 1).to_le_bytes());
        shared.extend_from_slice(&1i32.to_le_bytes());
        shared.extend_from_slice(&0x7F80_0001u32.to_le_bytes()); // QUAL missing
        let n_allele = 1 + max_allele;
        shared.extend_from_slice(&((n_allele << 16) | 0).to_le_bytes());
        shared.extend_from_slice(&((1u32 << 24) | cols.len() as u32).to_le_bytes());
        shared.push(0x07); // ID: missing string
        shared.extend_from_slice(&[0x17, b'A']);
        for a in alts.iter().take(max_allele as usize) {
            shared.push(((a.len() as u8) << 4) | 7);
            shared.extend_from_slice(a.as_bytes());
        }
        shared.push(0x00); // FILTER: none
        // FORMAT key: dictionary index of GT as a typed integer (int8 up to 127, int16 beyond)
        let gt_idx = n_info + 1;
        let key = |idx: usize| -> Vec<u8> { if idx <= 127 { vec![0x11, idx as u8] } else { vec![0x12, (idx & 0xff) as u8, (idx >> 8) as u8] } };
        let mut indiv = key(gt_idx);
        indiv.push(((ploidy as u8) << 4) | 1); // int8 vector of length `ploidy`
        for call in &calls {
            for (i, (a, phased)) in call.iter().enumerate() {
                let v = a.map(|x| (x + 1) << 1).unwrap_or(0) as u8 | u8::from(*phased && i > 0);
                indiv.push(v);
            }
            for _ in call.len()..ploidy {
                indiv.push(0x81); // int8 END_OF_VECTOR
            }
        }
        if r.nogt {
            // FORMAT key: dictionary index 2 = DP (PASS = 0, GT = 1), one int8 per sample
            indiv = key(gt_idx + 1);
            indiv.push(0x11);
            for ci in 0..cols.len() {
                indiv.push(5 + ci as u8);
            }
        }
        if r.bad {
            // a corrupt record: the stream ends in the middle of it (after the two length fields and a few bytes)
            out.extend_from_slice(&(shared.len() as u32).to_le_bytes());
            out.extend_from_slice(&(indiv.len() as u32).to_le_bytes());
            let cut = 3 + (r.pos as usize % (shared.len() - 3));
            out.extend_from_slice(&shared[..cut]);
            return out;
        }
        out.extend_from_slice(&(shared.len() as u32).to_le_bytes());
        out.extend_from_slice(&(indiv.len() as u32).to_le_bytes());
        out.extend_from_slice(&shared);
        out.extend_from_slice(&indiv);
    }
    out
}

/// "0|1" -> [(Some(0), false), (Some(1), true)]; the flag of allele i says whether the
/// separator in front of it is '|'.
pub fn parse_gt(s: &str) -> Vec<(Option<u32>, bool)> {
    let mut out = Vec::new();
    let mut phased = false;
    let mut cur = String::new();
    let push = |cur: &mut String, phased: bool, out: &mut Vec<(Option<u32>, bool)>| {
        out.push((if cur == "." { None } else { cur.parse().ok() }, phased));
        cur.clear();
    };
    for ch in s.chars() {
        if ch == '/' || ch == '|' {
            push(&mut cur, phased, &mut out);
            phased = ch == '|';
        } else {
            cur.push(ch);
        }
    }
    push(&mut cur, phased, &mut out);
    out
}
